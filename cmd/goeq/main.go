// Command goeq is E2 of the verification framework: it decides the relational
// obligation EQ(d) ("d is equivalent to its go-ethereum v1.12.0 counterpart
// assuming all callees are") for every paired top-level declaration of /repo.
//
//	goeq check [--repo /repo] [--props C01,C02] [--out file.json] [--deltas /verif/eq/deltas.json] [--upstream dir]
//	goeq show  [--repo /repo] <decl>     print both normalised texts of one declaration (e.g. "vm.(*EVM).Call")
//	goeq hash  [--repo /repo] <decl>     print sha256 + normalised /repo text (for replace_decl rules)
package main

import (
	"encoding/json"
	"flag"
	"fmt"
	"os"
	"path/filepath"
	"strings"

	"verif/internal/goeq"
)

func defaultDeltas() string {
	if exe, err := os.Executable(); err == nil {
		p := filepath.Join(filepath.Dir(exe), "..", "eq", "deltas.json")
		if _, err := os.Stat(p); err == nil {
			return filepath.Clean(p)
		}
	}
	return "/verif/eq/deltas.json"
}

func main() {
	if len(os.Args) < 2 {
		usage()
	}
	cmd := os.Args[1]
	fs := flag.NewFlagSet(cmd, flag.ExitOnError)
	repo := fs.String("repo", "/repo", "artela-evm working tree")
	props := fs.String("props", "", "comma separated property ids (default: all)")
	out := fs.String("out", "", "write JSON here (default: stdout)")
	deltas := fs.String("deltas", defaultDeltas(), "declared deltas")
	upstream := fs.String("upstream", "", "go-ethereum source dir (default: the version selected by <repo>/go.mod, from the module cache)")
	quiet := fs.Bool("q", false, "no summary on stderr")
	fs.Parse(os.Args[2:])

	opt := goeq.Options{RepoDir: *repo, UpstreamDir: *upstream, DeltasPath: *deltas}
	if *props != "" {
		for _, p := range strings.Split(*props, ",") {
			if p = strings.TrimSpace(p); p != "" {
				opt.Props = append(opt.Props, p)
			}
		}
	}
	switch cmd {
	case "check":
		rep, err := goeq.Check(opt)
		if err != nil {
			fmt.Fprintln(os.Stderr, "goeq:", err)
			os.Exit(2)
		}
		b, _ := json.MarshalIndent(rep, "", " ")
		b = append(b, '\n')
		if *out == "" {
			os.Stdout.Write(b)
		} else if err := os.WriteFile(*out, b, 0o644); err != nil {
			fmt.Fprintln(os.Stderr, "goeq:", err)
			os.Exit(2)
		}
		if !*quiet {
			c := rep.Counts
			fmt.Fprintf(os.Stderr, "goeq: pairs=%d reflexive=%d delta=%d failed=%d (function pairs %d, reflexive %d) repo_only=%d upstream_only=%d wall=%.2fs\n",
				c["pairs"], c["reflexive"], c["delta"], c["failed"], c["function_pairs"], c["function_pairs_reflexive"], c["repo_only"], c["upstream_only"], rep.WallS)
			for _, o := range rep.Obligations {
				if o.Status == "failed" {
					fmt.Fprintf(os.Stderr, "FAILED %s: %s\n", o.ID, o.Reason)
				}
			}
		}
		if rep.Counts["failed"] > 0 {
			os.Exit(1)
		}
	case "show", "hash":
		if fs.NArg() != 1 {
			usage()
		}
		r, u, err := goeq.Show(opt, fs.Arg(0))
		if err != nil {
			fmt.Fprintln(os.Stderr, "goeq:", err)
			os.Exit(2)
		}
		if cmd == "hash" {
			fmt.Printf("sha256 %s\n%s", goeq.HashText(r), r)
			return
		}
		fmt.Printf("=== repo (normalised) sha256 %s\n%s=== upstream (normalised)\n%s=== diff\n%s", goeq.HashText(r), r, u,
			goeq.UnifiedDiff("upstream", "repo", u, r))
	default:
		usage()
	}
}

func usage() {
	fmt.Fprintln(os.Stderr, "usage: goeq check [--repo DIR] [--props C01,C02] [--out FILE] [--deltas FILE] [--upstream DIR]\n       goeq show|hash [--repo DIR] <decl>")
	os.Exit(2)
}
