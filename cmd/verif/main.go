// Command verif is the per-property driver of /verif (see MANIFEST.json):
//
//	verif check <id>|all [--tier quick|thorough] [-v]   run the check of one property (exit 1 + VIOLATION lines on failure)
//	verif baseline <id>|all                             record which obligations discharge on the unchanged tree (expected_obligations.json)
package main

import (
	"flag"
	"fmt"
	"os"
	"path/filepath"
	"strconv"

	"verif/internal/driver"
)

func main() {
	if len(os.Args) < 3 {
		usage()
	}
	// the sandbox is offline: every go command started from here (package loading, overlay tests) must not try the network
	for k, v := range map[string]string{"GOFLAGS": "-mod=mod", "GOPROXY": "off", "GOSUMDB": "off", "GOTOOLCHAIN": "local"} {
		os.Setenv(k, v)
	}
	cmd, id := os.Args[1], os.Args[2]
	fs := flag.NewFlagSet(cmd, flag.ExitOnError)
	tier := fs.String("tier", envOr("VERIF_TIER", "quick"), "quick | thorough")
	repo := fs.String("repo", "/repo", "repository root")
	vdir := fs.String("verif", defaultVerifDir(), "verification directory")
	verbose := fs.Bool("v", false, "print every obligation")
	timeout := fs.Int("timeout", 0, "per-obligation solver timeout (s)")
	fs.Parse(os.Args[3:])
	seed, _ := strconv.ParseInt(envOr("VERIF_SEED", "1"), 10, 64)
	if *tier != "quick" && *tier != "thorough" {
		*tier = "quick"
	}
	ctx := driver.NewCtx(driver.Options{VerifDir: *vdir, RepoDir: *repo, Tier: *tier, Seed: seed, Verbose: *verbose, TimeoutS: *timeout})
	ids := []string{id}
	if id == "all" {
		ids = driver.Order
	}
	switch cmd {
	case "check":
		exit := 0
		for _, p := range ids {
			r, err := ctx.CheckProperty(p)
			if err != nil {
				fmt.Fprintf(os.Stderr, "verif: %s: %v\n", p, err)
				os.Exit(2)
			}
			d, u := 0, 0
			for _, o := range r.Obls {
				if o.Status == "discharged" {
					d++
					if *verbose {
						fmt.Printf("ok         %s (%s %.2fs)\n", o.ID, o.Backend, o.TimeS)
					}
				} else {
					u++
					fmt.Printf("%-10s %s [%s] %s\n", o.Status, o.ID, o.Pos, firstLine(o.Reason))
					if *verbose {
						for k, v := range o.Model {
							fmt.Printf("      %s = %s\n", k, v)
						}
					}
				}
			}
			for _, l := range r.Known {
				fmt.Println(l)
			}
			for _, l := range r.Violations {
				fmt.Println(l)
			}
			fmt.Printf("verif %s [%s]: obligations=%d discharged=%d undischarged=%d known-findings=%d wall=%.1fs\n", p, *tier, len(r.Obls), d, u, len(r.Known), r.Evidence["wall_s"])
			if r.Exit != 0 {
				exit = 1
			}
		}
		os.Exit(exit)
	case "baseline":
		if err := ctx.WriteBaseline(ids); err != nil {
			fmt.Fprintln(os.Stderr, "verif:", err)
			os.Exit(2)
		}
	default:
		usage()
	}
}

func firstLine(s string) string {
	for i, c := range s {
		if c == '\n' {
			return s[:i]
		}
	}
	return s
}

func envOr(k, d string) string {
	if v := os.Getenv(k); v != "" {
		return v
	}
	return d
}

func defaultVerifDir() string {
	if exe, err := os.Executable(); err == nil {
		d := filepath.Dir(filepath.Dir(exe))
		if _, err := os.Stat(filepath.Join(d, "properties.jsonl")); err == nil {
			return d
		}
	}
	return "/verif"
}

func usage() {
	fmt.Fprintln(os.Stderr, "usage: verif check|baseline <id>|all [--tier quick|thorough] [-v]")
	os.Exit(2)
}
