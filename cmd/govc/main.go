// govc: verification-condition generator for Go (go/ssa) with SMT discharge.
package main

import (
	"encoding/json"
	"flag"
	"fmt"
	"os"
	"strings"
	"time"

	"verif/internal/govc"
)

func main() {
	repo := flag.String("repo", "/repo", "repository root")
	pkgs := flag.String("pkgs", "./vm,./tracers/native", "package patterns (comma separated)")
	prop := flag.String("prop", "all", "property id to check (or all)")
	tier := flag.String("tier", "quick", "quick | thorough")
	out := flag.String("out", "", "write JSON report here")
	only := flag.String("func", "", "only this function")
	smtdir := flag.String("smtdir", "", "keep SMT scripts of undischarged obligations here")
	timeout := flag.Int("timeout", 0, "per-obligation solver timeout (s)")
	verbose := flag.Bool("v", false, "print every obligation")
	overlay := flag.String("overlay", "", "JSON file {path: replacement-file} applied to the loader (self-test patches)")
	audit := flag.Bool("audit", false, "also run the type-invariant writer audit")
	diag := flag.Bool("diagnose", false, "for unknown obligations: retry without quantified assumptions to tell unprovable from slow")
	flag.Parse()

	var ov map[string][]byte
	if *overlay != "" {
		raw, err := os.ReadFile(*overlay)
		if err != nil {
			fmt.Fprintln(os.Stderr, err)
			os.Exit(2)
		}
		var m map[string]string
		if err := json.Unmarshal(raw, &m); err != nil {
			fmt.Fprintln(os.Stderr, err)
			os.Exit(2)
		}
		ov = map[string][]byte{}
		for k, v := range m {
			b, err := os.ReadFile(v)
			if err != nil {
				fmt.Fprintln(os.Stderr, err)
				os.Exit(2)
			}
			ov[k] = b
		}
	}
	t0 := time.Now()
	p, err := govc.Load(*repo, strings.Split(*pkgs, ","), ov)
	if err != nil {
		fmt.Fprintln(os.Stderr, "load:", err)
		os.Exit(2)
	}
	p.LoadS = time.Since(t0).Seconds()
	opts := govc.CheckOpts{Prop: *prop, Tier: *tier, OnlyFunc: *only, SMTDir: *smtdir, Verbose: *verbose, Audit: *audit, Diagnose: *diag}
	if *tier == "thorough" {
		opts.TimeoutS = 120
		opts.Confirm = true
	} else {
		opts.TimeoutS = 20
	}
	if *timeout > 0 {
		opts.TimeoutS = *timeout
	}
	rep := govc.Check(p, opts)
	if *out != "" {
		b, _ := json.MarshalIndent(rep, "", " ")
		if err := os.WriteFile(*out, b, 0o644); err != nil {
			fmt.Fprintln(os.Stderr, err)
			os.Exit(2)
		}
	}
	for _, se := range rep.SpecErrors {
		fmt.Println("SPEC-ERROR", se)
	}
	for _, f := range rep.Functions {
		if f.Error != "" {
			fmt.Printf("FUNC %s: %s\n", f.Func, f.Error)
		}
	}
	bad := 0
	for _, o := range rep.Obligations {
		if o.Status != "discharged" {
			bad++
			fmt.Printf("%-10s %s  [%s] %s\n", strings.ToUpper(o.Status), o.ID, o.Pos, o.Reason)
			if len(o.Model) > 0 {
				for k, v := range o.Model {
					fmt.Printf("      %s = %s\n", k, v)
				}
			}
		} else if *verbose {
			fmt.Printf("ok         %s (%s %.2fs)\n", o.ID, o.Backend, o.TimeS)
		}
	}
	for _, o := range rep.Vacuity {
		if o.Status == "failed" {
			bad++
			fmt.Printf("VACUOUS    %s %s\n", o.ID, o.Reason)
		} else if *verbose {
			fmt.Printf("vacuity    %s: %s\n", o.ID, o.Status)
		}
	}
	fmt.Printf("govc %s: %s  functions=%d load=%.1fs wall=%.1fs\n", *prop, rep.Summary(), len(rep.Functions), rep.LoadS, rep.WallS)
	if bad > 0 || len(rep.SpecErrors) > 0 {
		os.Exit(1)
	}
}
