package driver

import (
	"encoding/hex"
	"encoding/json"
	"fmt"
	"math/big"
	"sort"
	"strings"
	"time"
)

// model access ---------------------------------------------------------------

func mval(o *Obl, name string) (*big.Int, bool) {
	v, ok := o.Model["|w:"+name+"|"]
	if !ok {
		v, ok = o.Model["w:"+name]
	}
	if !ok {
		return nil, false
	}
	return parseSMTVal(v)
}

func parseSMTVal(v string) (*big.Int, bool) {
	v = strings.TrimSpace(v)
	switch {
	case v == "true":
		return big.NewInt(1), true
	case v == "false":
		return big.NewInt(0), true
	case strings.HasPrefix(v, "#x"):
		n, ok := new(big.Int).SetString(v[2:], 16)
		return n, ok
	case strings.HasPrefix(v, "#b"):
		n, ok := new(big.Int).SetString(v[2:], 2)
		return n, ok
	case strings.HasPrefix(v, "(_ bv"):
		f := strings.Fields(strings.Trim(v, "()"))
		if len(f) >= 2 {
			n, ok := new(big.Int).SetString(strings.TrimPrefix(f[1], "bv"), 10)
			return n, ok
		}
	}
	return nil, false
}

func mu64(o *Obl, name string) uint64 {
	if v, ok := mval(o, name); ok && v.IsUint64() {
		return v.Uint64()
	}
	return 0
}

func mbool(o *Obl, name string) bool {
	v, ok := mval(o, name)
	return ok && v.Sign() != 0
}

// mbytes rebuilds a byte slice from witness-bytes terms; ok=false when the model's length exceeds max.
func mbytes(o *Obl, name string, max int) ([]byte, bool) {
	ln, ok := mval(o, name+".len")
	if !ok || !ln.IsUint64() || ln.Uint64() > uint64(max) {
		return nil, false
	}
	n := int(ln.Uint64())
	b := make([]byte, n)
	for i := 0; i < n; i++ {
		if v, ok := mval(o, fmt.Sprintf("%s[%d]", name, i)); ok {
			b[i] = byte(v.Uint64())
		}
	}
	return b, true
}

func hex256(v *big.Int) string {
	if v == nil {
		return "00"
	}
	return fmt.Sprintf("%064x", v)
}

// hashOfModel: a [32]byte value is encoded with element 0 in the LOW bits; give its bytes in memory order.
func hashOfModel(v *big.Int) string {
	b := v.FillBytes(make([]byte, 32))
	for i, j := 0, len(b)-1; i < j; i, j = i+1, j-1 {
		b[i], b[j] = b[j], b[i]
	}
	return hex.EncodeToString(b)
}

// callLog lists the reached host calls of the counterexample path in order.
type loggedCall struct {
	Tag  string
	Name string
	Args map[int]*big.Int
	Res  map[int]*big.Int
}

func callLog(o *Obl) []loggedCall {
	tags := map[string]bool{}
	for k := range o.Model {
		k = strings.Trim(k, "|")
		if !strings.HasPrefix(k, "w:call") {
			continue
		}
		parts := strings.Split(strings.TrimPrefix(k, "w:"), ":")
		if len(parts) >= 3 {
			tags[parts[0]+":"+strings.Join(parts[1:len(parts)-1], ":")] = true
		}
	}
	var names []string
	for t := range tags {
		names = append(names, t)
	}
	sort.Strings(names)
	var out []loggedCall
	for _, t := range names {
		if !mbool(o, t+":reached") {
			continue
		}
		lc := loggedCall{Tag: t, Name: t[strings.Index(t, ":")+1:], Args: map[int]*big.Int{}, Res: map[int]*big.Int{}}
		for i := 0; i < 12; i++ {
			if v, ok := mval(o, fmt.Sprintf("%s:arg%d", t, i)); ok {
				lc.Args[i] = v
			}
			if v, ok := mval(o, fmt.Sprintf("%s:res%d", t, i)); ok {
				lc.Res[i] = v
			}
		}
		out = append(out, lc)
	}
	return out
}

// runners ----------------------------------------------------------------------

type replayOutcome struct {
	Gas       uint64   `json:"gas_left"`
	CalleeBal string   `json:"callee_balance_after"`
	CallerBal string   `json:"caller_balance_after"`
	Fired     []string `json:"join_points_fired"`
	Slot0     string   `json:"callee_slot0_after"`
	Panicked  bool     `json:"panicked"`
	Panic     string   `json:"panic"`
	Err       string   `json:"err"`
	Out       string   `json:"out"`
	OutLen    int      `json:"out_len"`
	StackLen  int      `json:"stack_len"`
	Notes     []string `json:"notes"`
}

func (c *Ctx) runScenario(driverName string, scenario map[string]any, confirm func(*replayOutcome) (bool, string)) *ReplayRun {
	cmd, out, _ := c.runOverlayTest("vm", replayTestSrc, "TestZZVerifReplay", scenario, 5*time.Minute)
	run := &ReplayRun{Driver: driverName, Scenario: scenario, Command: cmd, Output: tail(out, 3000)}
	i := strings.Index(out, "ZZREPLAY ")
	if i < 0 {
		run.Observed = "the replay test did not produce a result line"
		return run
	}
	line := out[i+len("ZZREPLAY "):]
	if j := strings.IndexByte(line, '\n'); j >= 0 {
		line = line[:j]
	}
	var ro replayOutcome
	if err := json.Unmarshal([]byte(line), &ro); err != nil {
		run.Observed = "unparsable result line: " + err.Error()
		return run
	}
	ok, what := confirm(&ro)
	run.Confirmed = ok
	run.Observed = what
	return run
}

// safetyConfirm: a safety / type-invariant obligation is confirmed by a Go panic of the real code.
func safetyConfirm(o *Obl) func(*replayOutcome) (bool, string) {
	return func(ro *replayOutcome) (bool, string) {
		if ro.Panicked {
			return true, "real code panicked: " + ro.Panic
		}
		return false, fmt.Sprintf("real code returned normally (err=%q, out_len=%d)", ro.Err, ro.OutLen)
	}
}

func isSafetyKind(o *Obl) bool {
	return o.Kind == "safety" || o.Kind == "typeinv" || o.Kind == "precondition"
}

func init() {
	replayers["vm.loadParamBytes"] = func(c *Ctx, prop string, o *Obl) *ReplayRun {
		in, ok := mbytes(o, "input", 4096)
		if !ok {
			return nil
		}
		sc := map[string]any{"kind": "loadParamBytes", "input": hex.EncodeToString(in), "input_nil": mbool(o, "input.nil"), "index": int(mu64(o, "index"))}
		conf := safetyConfirm(o)
		if !isSafetyKind(o) {
			conf = loadParamBytesOracle(in, int(mu64(o, "index")))
		}
		return c.runScenario("unit replay of vm.loadParamBytes", sc, conf)
	}
	replayers["vm.loadDataFromMem"] = func(c *Ctx, prop string, o *Obl) *ReplayRun {
		mem, ok := mbytes(o, "mem", 8192)
		if !ok {
			return nil
		}
		ptr, _ := mval(o, "ptr")
		sc := map[string]any{"kind": "loadDataFromMem", "mem": hex.EncodeToString(mem), "ptr": hex256(ptr)}
		return c.runScenario("unit replay of vm.loadDataFromMem", sc, safetyConfirm(o))
	}
	replayers["(*vm.Memory).Copy"] = func(c *Ctx, prop string, o *Obl) *ReplayRun {
		mem, ok := mbytes(o, "mem", 8192)
		if !ok {
			return nil
		}
		sc := map[string]any{"kind": "memcopy", "mem": hex.EncodeToString(mem), "dst": mu64(o, "dst"), "src": mu64(o, "src"), "len": mu64(o, "len")}
		return c.runScenario("unit replay of (*vm.Memory).Copy", sc, safetyConfirm(o))
	}
	replayers["(*vm.StateChanges).saveKey"] = func(c *Ctx, prop string, o *Obl) *ReplayRun {
		sc := map[string]any{"kind": "keytree"}
		return c.runScenario("tracer API history: register a at (slot 1, offset 0, type A), register b at (slot 1, offset 0, type B) under the same root, journal a change for b", sc, func(ro *replayOutcome) (bool, string) {
			all := strings.Join(ro.Notes, " | ")
			for _, n := range ro.Notes {
				if strings.HasPrefix(n, "disagree") {
					return true, all
				}
			}
			return false, all
		})
	}
	for _, q := range []string{"(*vm.StorageKey).Children", "(*vm.StorageKey).ChildrenIndices", "(*vm.StateChanges).IndicesOfChanges"} {
		q := q
		replayers[q] = func(c *Ctx, prop string, o *Obl) *ReplayRun {
			sc := map[string]any{"kind": "maporder", "func": q}
			return c.runScenario("repeated list query on one key with 8 children (200 repetitions; probabilistic: equal answers do not refute the finding)", sc, func(ro *replayOutcome) (bool, string) {
				for _, n := range ro.Notes {
					if strings.HasPrefix(n, "order-differs") {
						return true, "two calls on the same state returned different orders: " + n
					}
				}
				if ro.Panicked {
					return false, "panic: " + ro.Panic
				}
				return false, "200 repetitions returned the same order: " + ro.Out
			})
		}
	}
	replayers["(*vm.EVM).Call"] = func(c *Ctx, prop string, o *Obl) *ReplayRun {
		// the model says which join point is on the counterexample path; the scenario injects the failure there
		failAt, post := "", false
		for _, lc := range callLog(o) {
			if strings.Contains(lc.Name, "PostContractCall") {
				post = true
			}
			if strings.Contains(lc.Name, "PreContractCall") && failAt == "" {
				failAt = "preContractCall"
			}
		}
		if post {
			failAt = "postContractCall"
		}
		if failAt == "" && (strings.Contains(o.ID, "jp-") || strings.Contains(o.ID, "reverted") || strings.Contains(o.ID, "forfeits")) {
			failAt = "preContractCall"
		}
		errText := "aspect failure"
		if strings.Contains(o.ID, "out-of-gas") {
			errText = "out of gas"
		}
		// callee code: SSTORE(0,1); STOP  -- a state effect inside the frame
		sc := map[string]any{"kind": "evmcall", "code": "600160005500", "input": "", "value": 7, "gas": 100000, "fail_at": failAt, "fail_err": errText}
		label := o.ID
		return c.runScenario("EVM scenario: one CALL with value 7 to a contract that stores to slot 0, Aspect provider failing at "+failAt+" with '"+errText+"'", sc, func(ro *replayOutcome) (bool, string) {
			if ro.Panicked {
				return isSafetyKind(o), "panic: " + ro.Panic
			}
			obs := fmt.Sprintf("err=%q gas_left=%d callee_balance=%s caller_balance=%s slot0=%s fired=%v", ro.Err, ro.Gas, ro.CalleeBal, ro.CallerBal, ro.Slot0, ro.Fired)
			switch {
			case strings.Contains(label, "failed-frame-reverted"):
				bad := ro.Err != "" && (ro.CalleeBal != "0" || ro.CallerBal != "1000" || strings.Trim(ro.Slot0, "0x") != "")
				return bad, obs + map[bool]string{true: " -- the call failed but its value transfer / storage write survived", false: ""}[bad]
			case strings.Contains(label, "halt-forfeits-gas"):
				bad := ro.Err != "" && ro.Err != "execution reverted" && ro.Gas != 0
				return bad, obs + map[bool]string{true: " -- a non-revert failure handed gas back", false: ""}[bad]
			case strings.Contains(label, "jp-out-of-gas"):
				bad := ro.Err != "out of gas" || ro.Gas != 0
				return bad, obs + map[bool]string{true: " -- join-point out-of-gas did not surface as out-of-gas with no gas returned", false: ""}[bad]
			case strings.Contains(label, "no-gas-created"):
				return ro.Gas > 100000, obs
			case strings.Contains(label, "jp-failure-fails-call"):
				return ro.Err == "", obs
			}
			return false, obs + " (no oracle for this clause)"
		})
	}
	// tracers/native: the shortest well-nested event stream that reaches the failing clause, fed to the real tracer
	ev := func(name string, kv ...any) map[string]any {
		m := map[string]any{"ev": name}
		for i := 0; i+1 < len(kv); i += 2 {
			m[kv[i].(string)] = kv[i+1]
		}
		return m
	}
	nativeRun := func(c *Ctx, driver string, scenario map[string]any, confirm func(map[string]any) (bool, string)) *ReplayRun {
		cmd, out, _ := c.runOverlayTest("tracers/native", nativeReplayTestSrc, "TestZZVerifReplay", scenario, 5*time.Minute)
		run := &ReplayRun{Driver: driver, Scenario: scenario, Command: cmd, Output: tail(out, 3000)}
		i := strings.Index(out, "ZZREPLAY ")
		if i < 0 {
			run.Observed = "the replay test did not produce a result line"
			return run
		}
		line := out[i+len("ZZREPLAY "):]
		if j := strings.IndexByte(line, '\n'); j >= 0 {
			line = line[:j]
		}
		var ro map[string]any
		if err := json.Unmarshal([]byte(line), &ro); err != nil {
			run.Observed = "unparsable result line"
			return run
		}
		run.Confirmed, run.Observed = confirm(ro)
		return run
	}
	panicked := func(ro map[string]any) (bool, string) {
		if p, _ := ro["panicked"].(bool); p {
			return true, fmt.Sprint("real tracer panicked: ", ro["panic"])
		}
		b, _ := json.Marshal(ro["result"])
		return false, "tracer finished: " + string(b)
	}
	aspectCallStream := func(tracer string) map[string]any {
		return map[string]any{"tracer": tracer, "events": []any{ev("txstart", "gas", 1000000), ev("start", "to", "0xbb", "gas", 900000),
			ev("aspectenter", "jp", 4, "aspect", "0xa1", "to", "0xbb", "gas", 1000), ev("enter", "to", "0xcc", "gas", 500), ev("exit", "gas", 100)}}
	}
	replayers["(*tracers/native.callTracer).CaptureExit"] = func(c *Ctx, prop string, o *Obl) *ReplayRun {
		return nativeRun(c, "event stream: an Aspect running at the pre-contract-call join point issues an EVM call (call tracer)", aspectCallStream("call"), panicked)
	}
	replayers["(*tracers/native.flatCallTracer).CaptureExit"] = func(c *Ctx, prop string, o *Obl) *ReplayRun {
		return nativeRun(c, "event stream: an Aspect running at the pre-contract-call join point issues an EVM call (flat call tracer)", aspectCallStream("flat"), panicked)
	}
	replayers["(*tracers/native.callTracer).CaptureAspectExit"] = func(c *Ctx, prop string, o *Obl) *ReplayRun {
		sc := map[string]any{"tracer": "call", "events": []any{ev("txstart", "gas", 1000000), ev("start", "to", "0xbb", "gas", 900000),
			ev("aspectenter", "jp", 4, "aspect", "0xa1", "to", "0xbb", "gas", 100), ev("aspectexit", "jp", 4, "gas_left", 40),
			ev("aspectenter", "jp", 4, "aspect", "0xa2", "to", "0xbb", "gas", 90), ev("aspectexit", "jp", 4, "gas_left", 10),
			ev("end", "gas", 1), ev("txend", "gas_left", 5)}}
		return nativeRun(c, "event stream: two Aspects on the same join point of one call (gas 100 -> 40 left, then gas 90 -> 10 left)", sc, func(ro map[string]any) (bool, string) {
			if p, _ := ro["panicked"].(bool); p {
				return true, fmt.Sprint("real tracer panicked: ", ro["panic"])
			}
			b, _ := json.Marshal(ro["result"])
			var fr struct {
				JoinPoints []struct {
					GasUsed string `json:"gasUsed"`
					Aspect  string `json:"aspect"`
				} `json:"joinPoints"`
			}
			_ = json.Unmarshal(b, &fr)
			if len(fr.JoinPoints) != 2 {
				return true, "expected two Aspect frames, got: " + string(b)
			}
			if fr.JoinPoints[0].GasUsed != "0x3c" || fr.JoinPoints[1].GasUsed != "0x50" {
				return true, fmt.Sprintf("Aspect frames report gasUsed %s and %s; each Aspect's own gas used is 0x3c (60) and 0x50 (80)", fr.JoinPoints[0].GasUsed, fr.JoinPoints[1].GasUsed)
			}
			return false, "both Aspect frames carry their own gas used"
		})
	}
	for _, pc := range []string{"aspcontext", "userOpSender", "contextWriter"} {
		pc := pc
		replayers["(*vm."+pc+").Run"] = func(c *Ctx, prop string, o *Obl) *ReplayRun {
			in, ok := mbytes(o, "input", 4096)
			if !ok {
				return nil
			}
			sc := map[string]any{"kind": "precompile", "func": pc, "input": hex.EncodeToString(in), "input_nil": mbool(o, "input.nil"), "ctx_nil": mbool(o, "ctxnil")}
			return c.runScenario("unit replay of (*vm."+pc+").Run", sc, safetyConfirm(o))
		}
	}
	for _, op := range []string{"opValueChangeJournal", "opReferenceChangeJournal", "opReferenceIndexValueStorageJournal", "opValueIndexValueStorageJournal",
		"opReferenceIndexReferenceStorageJournal", "opValueIndexReferenceStorageJournal", "opReferenceStateVarJournal", "opValueStateVarJournal", "opMcopy", "opTload", "opTstore"} {
		op := op
		replayers["vm."+op] = func(c *Ctx, prop string, o *Obl) *ReplayRun {
			sc := opcodeScenario(op, o)
			if sc == nil {
				return nil
			}
			return c.runScenario("unit replay of vm."+op+" on a real interpreter, stack, memory and in-memory StateDB", sc, safetyConfirm(o))
		}
	}
}

func opcodeScenario(op string, o *Obl) map[string]any {
	var stack []string
	for i := 0; i < 8; i++ {
		v, ok := mval(o, fmt.Sprintf("s%d", i))
		if !ok {
			break
		}
		stack = append(stack, hex256(v))
	}
	mem, ok := mbytes(o, "mem", 8192)
	if !ok {
		mem = nil
		if _, has := mval(o, "mem.len"); has {
			return nil // memory too large to materialise
		}
	}
	storage := map[string]string{}
	for _, lc := range callLog(o) {
		if strings.HasSuffix(lc.Name, "StateDB.GetState") && lc.Args[2] != nil && lc.Res[0] != nil {
			k := hashOfModel(lc.Args[2])
			if _, dup := storage[k]; !dup {
				storage[k] = hashOfModel(lc.Res[0])
			}
		}
	}
	return map[string]any{"kind": "opcode", "func": op, "stack": stack, "mem": hex.EncodeToString(mem), "storage": storage, "read_only": mbool(o, "readonly")}
}

// loadParamBytesOracle: independent ABI decoder for (bytes, bytes) head/tail encoding, per the property statement.
func loadParamBytesOracle(in []byte, index int) func(*replayOutcome) (bool, string) {
	return func(ro *replayOutcome) (bool, string) {
		if ro.Panicked {
			return true, "real code panicked: " + ro.Panic
		}
		n := new(big.Int).SetInt64(int64(len(in)))
		word := func(off *big.Int) *big.Int {
			o := int(off.Int64())
			return new(big.Int).SetBytes(in[o : o+32])
		}
		head := big.NewInt(int64(index * 32))
		ok := new(big.Int).Add(head, big.NewInt(32)).Cmp(n) <= 0
		var off, dl *big.Int
		if ok {
			off = word(head)
			ok = new(big.Int).Add(off, big.NewInt(32)).Cmp(n) <= 0
		}
		if ok {
			dl = word(off)
			ok = new(big.Int).Add(new(big.Int).Add(off, big.NewInt(32)), dl).Cmp(n) <= 0
		}
		if !ok {
			if ro.Err == "" {
				return true, "malformed payload accepted: returned " + ro.Out
			}
			return false, "malformed payload rejected with " + ro.Err
		}
		want := hex.EncodeToString(in[off.Int64()+32 : off.Int64()+32+dl.Int64()])
		if ro.Err != "" {
			return true, "well-formed payload rejected with " + ro.Err
		}
		if ro.Out != want {
			return true, "decoded " + ro.Out + ", the ABI encoding contains " + want
		}
		return false, "decoded exactly the encoded bytes"
	}
}
