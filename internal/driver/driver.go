// Package driver turns the engines (E1 govc, E2 goeq, ground evaluation,
// syntactic whole-package obligations) into per-property checks with the
// interface of /verif/MANIFEST.json: evidence file, known findings, replay
// files and VIOLATION lines. See /verif/DESIGN.md §3.5.
package driver

import (
	"encoding/json"
	"fmt"
	"os"
	"path/filepath"
	"regexp"
	"sort"
	"strings"
	"time"

	"verif/internal/goeq"
	"verif/internal/govc"
)

// Obl is the engine-independent record of one proof obligation.
type Obl struct {
	ID      string            `json:"id"`
	Engine  string            `json:"engine"` // E1 govc | E2 goeq | G ground | S syntactic
	Kind    string            `json:"kind"`
	Func    string            `json:"func,omitempty"`
	Pos     string            `json:"pos,omitempty"`
	Text    string            `json:"text,omitempty"`
	Status  string            `json:"status"` // discharged | failed | unknown | error
	Backend string            `json:"backend,omitempty"`
	Reason  string            `json:"reason,omitempty"`
	TimeS   float64           `json:"time_s"`
	Model   map[string]string `json:"model,omitempty"`
	Diff    string            `json:"diff,omitempty"`
}

type Options struct {
	VerifDir string
	RepoDir  string
	Tier     string
	Seed     int64
	Verbose  bool
	TimeoutS int
}

// Ctx caches what several properties of one invocation share.
type Ctx struct {
	Opt     Options
	prog    *govc.Program
	progErr error
	loadS   float64
	e1cache map[string]*govc.Report
	eqRep   *goeq.Report
	eqErr   error
	ground  *GroundFacts
	groundE error
	// content of <scenario>.out written by the last overlay test (large outputs bypass stdout)
	lastScenarioOut []byte
}

func NewCtx(o Options) *Ctx { return &Ctx{Opt: o, e1cache: map[string]*govc.Report{}} }

func (c *Ctx) Program() (*govc.Program, error) {
	if c.prog == nil && c.progErr == nil {
		t0 := time.Now()
		c.prog, c.progErr = govc.Load(c.Opt.RepoDir, []string{"./vm", "./tracers/native"}, nil)
		c.loadS = time.Since(t0).Seconds()
		if c.prog != nil {
			c.prog.LoadS = c.loadS
		}
	}
	return c.prog, c.progErr
}

// Finding is one entry of known_findings.json.
type Finding struct {
	Property   string `json:"property"`
	Obligation string `json:"obligation"` // exact obligation id
	What       string `json:"what"`       // what fails, with the failing input
}

type FindingsFile struct {
	Findings []Finding `json:"findings"`
	Fixed    []string  `json:"fixed"` // "fixed: property=<id> <commit> <what failed>"
}

func loadFindings(dir string) (*FindingsFile, error) {
	b, err := os.ReadFile(filepath.Join(dir, "known_findings.json"))
	if err != nil {
		if os.IsNotExist(err) {
			return &FindingsFile{}, nil
		}
		return nil, err
	}
	var f FindingsFile
	if err := json.Unmarshal(b, &f); err != nil {
		return nil, fmt.Errorf("known_findings.json: %v", err)
	}
	return &f, nil
}

// Expected is expected_obligations.json: what discharged on the unchanged tree.
type Expected struct {
	Props map[string]*ExpectedProp `json:"props"`
}
type ExpectedProp struct {
	Count      int      `json:"count"`
	Discharged []string `json:"discharged"`
}

func loadExpected(dir string) *Expected {
	e := &Expected{Props: map[string]*ExpectedProp{}}
	b, err := os.ReadFile(filepath.Join(dir, "expected_obligations.json"))
	if err == nil {
		_ = json.Unmarshal(b, e)
	}
	if e.Props == nil {
		e.Props = map[string]*ExpectedProp{}
	}
	return e
}

var unsafeRe = regexp.MustCompile(`[^A-Za-z0-9_.\-]+`)

func sanitize(s string) string {
	s = unsafeRe.ReplaceAllString(s, "_")
	if len(s) > 150 {
		s = s[:150]
	}
	return s
}

// Result of one property check.
type Result struct {
	Prop       string
	Obls       []*Obl
	Vacuity    []*Obl
	Violations []string // VIOLATION lines
	Known      []string // KNOWN-FINDING lines
	Evidence   map[string]any
	Exit       int
}

// CheckProperty runs every engine the property uses, writes the evidence file and returns the outcome.
func (c *Ctx) CheckProperty(id string) (*Result, error) {
	cfg, ok := Props[id]
	if !ok {
		return nil, fmt.Errorf("unknown property %s", id)
	}
	start := time.Now()
	res := &Result{Prop: id}
	// replay files of earlier runs of this property are stale
	if old, _ := filepath.Glob(filepath.Join(c.Opt.VerifDir, "replays", id+"-*.json")); len(old) > 0 {
		for _, f := range old {
			os.Remove(f)
		}
	}
	var funcs []*govc.FuncReport
	var trusted []string
	var notes []string
	solverS := 0.0
	backends := map[string]int{}

	// E2
	if cfg.E2 {
		rep, err := c.eq()
		if err != nil {
			return nil, fmt.Errorf("E2: %v", err)
		}
		for i := range rep.Obligations {
			o := &rep.Obligations[i]
			if !hasStr(o.Props, id) {
				continue
			}
			ob := &Obl{ID: o.ID, Engine: "E2 goeq", Kind: o.Kind + ":" + o.DeclKind, Func: strings.TrimPrefix(o.ID, "EQ/"), Pos: o.RepoFile,
				Text:   "declaration is equivalent to its go-ethereum " + rep.UpstreamModule + " counterpart (" + o.UpFile + ") assuming all callee pairs are",
				Status: o.Status, Backend: o.Backend, Reason: o.Reason, TimeS: o.TimeS, Diff: o.Diff}
			if len(o.RulesUsed) > 0 {
				ob.Backend += " [" + strings.Join(o.RulesUsed, ",") + "]"
			}
			res.Obls = append(res.Obls, ob)
		}
		notes = append(notes, fmt.Sprintf("E2: upstream %s at %s; normalisation: %s", rep.UpstreamModule, rep.UpstreamDir, strings.Join(rep.Normalisation, "; ")))
		for _, w := range rep.Warnings {
			notes = append(notes, "E2 warning: "+w)
		}
	}
	// E1
	if cfg.E1 {
		p, err := c.Program()
		if err != nil {
			// a tree that does not load cannot be verified: every obligation of the property is undecided
			res.Obls = append(res.Obls, &Obl{ID: id + "/load", Engine: "E1 govc", Kind: "load", Status: "error", Text: "packages ./vm ./tracers/native load and type-check with -tags verif", Reason: err.Error()})
		} else {
			rep := c.e1(p, id)
			for _, se := range rep.SpecErrors {
				res.Obls = append(res.Obls, &Obl{ID: id + "/contract-file", Engine: "E1 govc", Kind: "spec", Status: "error", Text: "contract file parses", Reason: se})
			}
			for _, o := range rep.Obligations {
				ob := &Obl{ID: o.ID, Engine: "E1 govc", Kind: o.Kind, Func: o.Func, Pos: o.Pos, Text: o.Text, Status: o.Status, Backend: o.Backend, Reason: o.Reason, TimeS: o.TimeS, Model: o.Model}
				res.Obls = append(res.Obls, ob)
			}
			for _, o := range rep.Vacuity {
				res.Vacuity = append(res.Vacuity, &Obl{ID: o.ID, Engine: "E1 govc", Kind: "vacuity", Func: o.Func, Text: o.Text, Status: o.Status, Backend: o.Backend, Reason: o.Reason, TimeS: o.TimeS})
			}
			funcs = rep.Functions
			trusted = append(trusted, rep.Trusted...)
			solverS += rep.SolverS
		}
	}
	// S: syntactic whole-package obligations over go/ssa + go/types
	if len(cfg.Syntactic) > 0 {
		p, err := c.Program()
		if err != nil {
			res.Obls = append(res.Obls, &Obl{ID: id + "/load-syntactic", Engine: "S syntactic", Kind: "load", Status: "error", Reason: err.Error()})
		} else {
			for _, name := range cfg.Syntactic {
				for _, o := range govc.Syntactic(p, name, id) {
					res.Obls = append(res.Obls, &Obl{ID: o.ID, Engine: "S syntactic", Kind: o.Kind, Func: o.Func, Pos: o.Pos, Text: o.Text, Status: o.Status, Backend: o.Backend, Reason: o.Reason, Model: o.Model})
				}
			}
		}
	}
	// G: ground evaluation of closed initialisers on the real code
	if len(cfg.Ground) > 0 {
		gobls := c.groundObls(id, cfg.Ground)
		res.Obls = append(res.Obls, gobls...)
	}

	// vacuity failures are failures of the check itself
	// A single unreachable return is reported as a note, not as a violation: it is either dead code in the repository
	// (e.g. an "if err != nil" after a callee that never fails) or a contradiction among the assumptions, and the
	// generator cannot tell which. A function none of whose returns is reachable, or whose preconditions are
	// unsatisfiable, is a failure of the check.
	perFunc := map[string][2]int{} // func -> {return covers, unreachable ones}
	for _, v := range res.Vacuity {
		if strings.Contains(v.ID, "/vacuity:return-reachable#") {
			x := perFunc[v.Func]
			x[0]++
			if v.Status == "failed" {
				x[1]++
			}
			perFunc[v.Func] = x
		}
	}
	for _, v := range res.Vacuity {
		if v.Status != "failed" {
			continue
		}
		if strings.Contains(v.ID, "/vacuity:return-reachable#") {
			if x := perFunc[v.Func]; x[1] < x[0] {
				notes = append(notes, "E1 "+v.Func+": unreachable under the active assumptions (dead code, or contradictory assumptions - review): "+v.Text)
				continue
			}
		}
		res.Obls = append(res.Obls, &Obl{ID: v.ID, Engine: v.Engine, Kind: "vacuity", Func: v.Func, Text: v.Text, Status: "failed", Reason: v.Reason})
	}
	if len(res.Obls) == 0 {
		res.Obls = append(res.Obls, &Obl{ID: id + "/no-obligations", Engine: "driver", Kind: "vacuity", Status: "failed", Text: "the check generates at least one obligation", Reason: "zero obligations generated"})
	}

	// triage
	ff, err := loadFindings(c.Opt.VerifDir)
	if err != nil {
		return nil, err
	}
	exp := loadExpected(c.Opt.VerifDir)
	expSet := map[string]bool{}
	if ep := exp.Props[id]; ep != nil {
		for _, x := range ep.Discharged {
			expSet[x] = true
		}
	}
	known := map[string]Finding{}
	for _, f := range ff.Findings {
		if f.Property == id {
			known[f.Obligation] = f
		}
	}
	discharged := 0
	knownHit := 0
	var undis []*Obl
	for _, o := range res.Obls {
		if o.Status == "discharged" {
			discharged++
			backends[backendKey(o.Backend)]++
			continue
		}
		if f, ok := known[o.ID]; ok {
			res.Known = append(res.Known, fmt.Sprintf("KNOWN-FINDING: property=%s %s [obligation %s: %s]", id, f.What, o.ID, o.Status))
			knownHit++
			continue
		}
		undis = append(undis, o)
	}
	replayed := 0
	for _, o := range undis {
		path, confirmed := c.replay(id, o, expSet[o.ID])
		line := fmt.Sprintf("VIOLATION property=%s replay=%s", id, path)
		if confirmed {
			replayed++
		} else {
			line += " no-failing-input-found"
		}
		res.Violations = append(res.Violations, line)
	}
	if len(undis) > 0 {
		res.Exit = 1
	}

	// evidence
	level := cfg.Level
	if (knownHit > 0 || discharged == 0 || len(undis) > 0) && level == "proof" {
		// a proof-level claim needs every obligation discharged; otherwise the run is reported as 'other' with the explanation
		level = "other"
	}
	if cfg.Assumptions == nil {
		cfg.Assumptions = []string{}
	}
	var samples []any
	for i, o := range res.Obls {
		if i%maxInt(1, len(res.Obls)/8) == 0 && len(samples) < 10 {
			samples = append(samples, map[string]any{"id": o.ID, "engine": o.Engine, "kind": o.Kind, "text": o.Text, "status": o.Status, "backend": o.Backend, "time_s": o.TimeS, "pos": o.Pos})
		}
	}
	var fnNames []string
	var inlined, libs, tinvs []string
	seenS := map[string]bool{}
	addU := func(dst *[]string, xs []string, pre string) {
		for _, x := range xs {
			if !seenS[pre+x] {
				seenS[pre+x] = true
				*dst = append(*dst, x)
			}
		}
	}
	for _, f := range funcs {
		if f.NObl == 0 && f.Error == "" {
			continue
		}
		fnNames = append(fnNames, f.Func)
		addU(&inlined, f.Inlined, "i")
		addU(&libs, f.UsedExtern, "l")
		addU(&tinvs, f.TypeInvs, "t")
		for _, n := range f.Notes {
			addU(&notes, []string{"E1 " + f.Func + ": " + n}, "n")
		}
	}
	sort.Strings(inlined)
	sort.Strings(libs)
	tb := append([]string{}, cfg.Trusted...)
	for _, t := range trusted {
		tb = append(tb, "assumed contract (not verified here, or verified separately as its own function): "+t)
	}
	for _, l := range libs {
		tb = append(tb, "library model (hand-written semantics of a dependency function): "+l)
	}
	if cfg.E1 {
		tb = append(tb, "go/ssa lowering of x/tools v0.29.0; govc encoding of Go semantics (DESIGN 3.1); SMT solvers z3 5.1.0 / z3 4.8.12 / cvc5 1.0.3",
			"machine integers are exact bit-vectors (nothing treated as mathematical); spec-level math() integers are 320-bit vectors",
			"no slice/array/map holds 2^40 or more elements; allocation counter below 2^62")
	}
	if cfg.E2 {
		tb = append(tb, "regression-verification composition rule (all EQ(f) hold => partial equivalence of the programs) is a meta-theorem, not machine-checked; termination not addressed",
			"go/parser + go/printer; the printed normalisation of goeq; the upstream source in the module cache is the reference (hash-pinned by go.sum)")
	}
	vac := map[string]int{}
	for _, v := range res.Vacuity {
		vac[v.Status]++
	}
	cov := map[string]any{
		"obligations":                           len(res.Obls),
		"discharged":                            discharged,
		"undischarged":                          len(undis),
		"known_findings_hit":                    knownHit,
		"checker_cmd":                           fmt.Sprintf("cd /verif && bin/verif check %s --tier %s", id, c.Opt.Tier),
		"trusted_base":                          tb,
		"samples":                               samples,
		"backends":                              backends,
		"solver_s":                              round3(solverS),
		"functions_under_contract":              fnNames,
		"inlined_callees":                       inlined,
		"type_invariants_assumed":               tinvs,
		"vacuity_checks":                        vac,
		"notes":                                 notes,
		"explanation":                           cfg.Explanation,
		"replays_confirmed":                     replayed,
		"expected_discharged_on_unchanged_tree": len(expSet),
		"engines":                               cfg.engines(),
	}
	if len(res.Known) > 0 {
		cov["known_findings"] = res.Known
	}
	var viol []any
	for _, o := range undis {
		viol = append(viol, map[string]any{"id": o.ID, "status": o.Status, "reason": o.Reason, "pos": o.Pos, "text": o.Text, "passed_on_unchanged_tree": expSet[o.ID]})
	}
	if len(viol) > 0 {
		cov["undischarged_obligations"] = viol
	}
	ev := map[string]any{
		"property_id": id,
		"tier":        c.Opt.Tier,
		"seed":        c.Opt.Seed,
		"level":       level,
		"coverage":    cov,
		"assumptions": withAssumedNotes(cfg.Assumptions, notes),
		"wall_s":      round3(time.Since(start).Seconds()),
		"violations":  len(undis),
	}
	res.Evidence = ev
	if err := writeJSON(filepath.Join(c.Opt.VerifDir, "evidence", id+".json"), ev); err != nil {
		return nil, err
	}
	return res, nil
}

// withAssumedNotes: the assumptions of the property table plus every clause the contract files mark as assumed
// (assume clauses, ensures marked "assumed"), as reported by the generator while encoding.
func withAssumedNotes(base []string, notes []string) []string {
	out := append([]string{}, base...)
	// identical clauses assumed by many functions (the fntype contract checked for every implementation) are
	// reported once, with the number of functions
	type grp struct {
		head, clause string
		fns          []string
	}
	var order []string
	groups := map[string]*grp{}
	for _, n := range notes {
		i := strings.Index(n, "ASSUMED, unchecked")
		if i < 0 {
			continue
		}
		t := n[i:]
		head, fn, clause := t, "", ""
		for _, mark := range []string{"at entry of ", "postcondition of "} {
			if k := strings.Index(t, mark); k >= 0 {
				rest := t[k+len(mark):]
				if c := strings.Index(rest, ": "); c >= 0 {
					head, fn, clause = t[:k+len(mark)], rest[:c], rest[c+2:]
					if sp := strings.Index(fn, " exported"); sp >= 0 {
						clause = fn[sp+1:] + ": " + clause
						fn = fn[:sp]
					}
				}
				break
			}
		}
		key := head + "|" + clause
		g := groups[key]
		if g == nil {
			g = &grp{head: head, clause: clause}
			groups[key] = g
			order = append(order, key)
		}
		dup := false
		for _, f := range g.fns {
			if f == fn {
				dup = true
			}
		}
		if !dup {
			g.fns = append(g.fns, fn)
		}
	}
	for _, k := range order {
		g := groups[k]
		switch {
		case g.clause == "":
			out = append(out, g.head)
		case len(g.fns) <= 3:
			out = append(out, g.head+strings.Join(g.fns, ", ")+": "+g.clause)
		default:
			out = append(out, fmt.Sprintf("%s%d functions (%s, ...): %s", g.head, len(g.fns), strings.Join(g.fns[:3], ", "), g.clause))
		}
	}
	return out
}

func backendKey(b string) string {
	if i := strings.Index(b, " ["); i >= 0 {
		b = b[:i]
	}
	if strings.HasPrefix(b, "generator") {
		return "generator (trivially valid after simplification)"
	}
	if b == "" {
		return "unspecified"
	}
	return b
}

func maxInt(a, b int) int {
	if a > b {
		return a
	}
	return b
}

func round3(f float64) float64 { return float64(int64(f*1000+0.5)) / 1000 }

func hasStr(xs []string, s string) bool {
	for _, x := range xs {
		if x == s {
			return true
		}
	}
	return false
}

func writeJSON(path string, v any) error {
	b, err := json.MarshalIndent(v, "", " ")
	if err != nil {
		return err
	}
	if err := os.MkdirAll(filepath.Dir(path), 0o755); err != nil {
		return err
	}
	tmp := path + ".tmp"
	if err := os.WriteFile(tmp, append(b, '\n'), 0o644); err != nil {
		return err
	}
	return os.Rename(tmp, path)
}

func (c *Ctx) eq() (*goeq.Report, error) {
	if c.eqRep == nil && c.eqErr == nil {
		c.eqRep, c.eqErr = goeq.Check(goeq.Options{RepoDir: c.Opt.RepoDir, DeltasPath: filepath.Join(c.Opt.VerifDir, "eq", "deltas.json")})
	}
	return c.eqRep, c.eqErr
}

func (c *Ctx) e1(p *govc.Program, id string) *govc.Report {
	if r, ok := c.e1cache[id]; ok {
		return r
	}
	opts := govc.CheckOpts{Prop: id, Tier: c.Opt.Tier, Verbose: c.Opt.Verbose, Audit: id == "C03"}
	if c.Opt.Tier == "thorough" {
		opts.TimeoutS = 300
		opts.Confirm = true
	} else {
		opts.TimeoutS = 60
	}
	if c.Opt.TimeoutS > 0 {
		opts.TimeoutS = c.Opt.TimeoutS
	}
	if ff, err := loadFindings(c.Opt.VerifDir); err == nil {
		opts.NoRetry = map[string]bool{}
		for _, f := range ff.Findings {
			if f.Property == id {
				opts.NoRetry[f.Obligation] = true
			}
		}
	}
	r := govc.Check(p, opts)
	c.e1cache[id] = r
	return r
}

// WriteBaseline records which obligations discharge on the current (unchanged) tree.
func (c *Ctx) WriteBaseline(ids []string) error {
	exp := loadExpected(c.Opt.VerifDir)
	for _, id := range ids {
		r, err := c.CheckProperty(id)
		if err != nil {
			return err
		}
		ep := &ExpectedProp{Count: len(r.Obls)}
		for _, o := range r.Obls {
			if o.Status == "discharged" {
				ep.Discharged = append(ep.Discharged, o.ID)
			}
		}
		sort.Strings(ep.Discharged)
		exp.Props[id] = ep
	}
	return writeJSON(filepath.Join(c.Opt.VerifDir, "expected_obligations.json"), exp)
}
