package driver

// PropCfg says which engines decide a property and what is assumed.
type PropCfg struct {
	ID          string
	E1          bool     // govc: obligations tagged with this property in the contract files
	E2          bool     // goeq: EQ obligations tagged with this property
	Ground      []string // ground-evaluation groups (closed initialisers evaluated on the real code)
	Syntactic   []string // whole-package syntactic obligations (go/ssa scans)
	Level       string   // evidence level when everything is discharged
	Explanation string
	Assumptions []string
	Trusted     []string
}

func (p *PropCfg) engines() []string {
	var out []string
	if p.E1 {
		out = append(out, "E1 govc: contracts on the real functions, VCs from go/ssa, discharged by SMT")
	}
	if p.E2 {
		out = append(out, "E2 goeq: relational contract 'equals the go-ethereum v1.12.0 declaration of the same name' (reflexivity / ghost-erasure rule)")
	}
	if len(p.Ground) > 0 {
		out = append(out, "G: ground evaluation of input-free initialisers (instruction tables, precompile maps) on the real code through go test -overlay")
	}
	if len(p.Syntactic) > 0 {
		out = append(out, "S: whole-package syntactic obligations over go/ssa (frame / absence facts)")
	}
	return out
}

const hostAssume = "host callbacks (StateDB, CanTransfer/Transfer, GetHash, Aspect provider) satisfy the assumed iface/fntype contracts of vm/zz_verif_contracts_env.go"

// Props is the table of the 20 given properties.
var Props = map[string]*PropCfg{
	"C01": {ID: "C01", E2: true, E1: true, Level: "proof",
		Explanation: "Relational proof against the go-ethereum v1.12.0 source: EQ(d) for every paired declaration of vm, vm/runtime, core (reflexivity after ctx-erasure, or declared ghost-erasure for the Artela deltas), plus the unary E1 obligation behind the transfer-wrapper erasure (TransferWithRecord performs the host transfer exactly once with its own arguments).",
		Assumptions: []string{"standard opcodes and precompiles only; join points with no Aspect bound return {gas, nil} (aspect-core, external)", hostAssume}},
	"C02": {ID: "C02", E2: true, E1: true, Level: "proof",
		Explanation: "EQ obligations restricted to the gas path (gas tables, memory gas, charging sequence, frame functions) plus unary E1 gas postconditions on the frame functions.",
		Assumptions: []string{"as C01"}},
	"C03": {ID: "C03", E1: true, Syntactic: []string{"no-recover", "immutable-fields"}, Ground: []string{"journal-table"}, Level: "proof",
		Explanation: "Annotation-free safety sweep (slice/index bounds, nil dereference, division, type assertion, makeslice, explicit panic, library preconditions) over every Artela-specific function, under the instruction protocol / host preconditions stated as requires; bookkeeping postconditions.",
		Assumptions: []string{hostAssume, "upstream-derived functions crash exactly where go-ethereum v1.12.0 does (C01 EQ); the reference is assumed crash-free on its domain"}},
	"C04": {ID: "C04", E1: true, E2: true, Level: "proof", Explanation: "Ghost snapshot/dirty monitor on the five frame functions.", Assumptions: []string{"StateDB.RevertToSnapshot restores the state of the matching Snapshot (go-ethereum journal, trusted)", hostAssume}},
	"C05": {ID: "C05", E1: true, Syntactic: []string{"jp-flag-writers"}, Level: "proof", Explanation: "Ghost event-trace monitor on (*EVM).Call: join-point protocol and message fields.", Assumptions: []string{hostAssume}},
	"C06": {ID: "C06", E1: true, Level: "proof", Explanation: "Gas clauses on (*EVM).Call with abstract join-point results.", Assumptions: []string{"the Aspect runtime reports Gas <= the gas passed in (external, assumed)", hostAssume}},
	"C07": {ID: "C07", E1: true, Syntactic: []string{"calltree-encapsulated", "immutable-fields"}, Level: "proof", Explanation: "Quantified well-formedness invariant of CallTree preserved by add/exit; Call/create open and close exactly one node; the interpreter loop, every function of type executionFunc and the other frame functions restore cursor, depth and read-only flag (verified, mutual recursion = modular induction); read API against the table.", Assumptions: []string{"count+1 does not wrap (2^64 calls): explicit assume clause", "two postconditions of (*EVMInterpreter).Run are marked assumed: gas-monotone and the frame of five heaps read by the frame functions after the callee ran", "library calls inside upstream opcodes are over-approximated (listed under trusted_base); sync.Pool hands out an unshared Stack"}},
	"C08": {ID: "C08", E1: true, E2: true, Level: "proof", Explanation: "Field and freshness clauses on CallTree.add/exit and the SaveCall/ExitCall sites of Call/create.", Assumptions: []string{hostAssume}},
	"C09": {ID: "C09", E1: true, Level: "proof", Explanation: "Journal opcodes against the Solidity layout spec functions.", Assumptions: []string{"keccak256 is an uninterpreted function (only its argument is checked)", hostAssume}},
	"C10": {ID: "C10", E1: true, E2: true, Syntactic: []string{"immutable-fields"}, Level: "proof", Explanation: "Attribution clauses: Contract.Address() at every journal site, CurrentCallIndex, StorageChanges.append whole-view spec.", Assumptions: []string{hostAssume}},
	"C11": {ID: "C11", E1: true, Level: "proof", Explanation: "Agreement between the flat (slot, offset, type) index and the name/index tree.", Assumptions: nil},
	"C12": {ID: "C12", E1: true, Ground: []string{"journal-table"}, Level: "proof", Explanation: "Frame of the eight journal opcodes, constant dynamic gas closure, ground evaluation of the 12 instruction tables.", Assumptions: []string{hostAssume}},
	"C13": {ID: "C13", E1: true, E2: true, Syntactic: []string{"transfer-only-via-record"}, Level: "proof", Explanation: "Event order of TransferWithRecord; package frame: Context.Transfer invoked only inside it.", Assumptions: []string{"balances < 2^256; the host transfer function does not re-enter the EVM"}},
	"C14": {ID: "C14", E1: true, Ground: []string{"precompile-maps"}, Level: "proof", Explanation: "ABI decode spec of loadParamBytes, the three Run methods, clone attribution in Call.", Assumptions: []string{hostAssume}},
	"C15": {ID: "C15", E1: true, E2: true, Ground: []string{"cancun-table"}, Level: "proof", Explanation: "MCOPY unary contracts (memmove spec, size, gas), EIP-1153 bodies EQ to upstream, ground evaluation of the Cancun table.", Assumptions: []string{"transient storage semantics is go-ethereum's StateDB (shared dependency)"}},
	"C16": {ID: "C16", E1: true, Syntactic: []string{"package-frame", "nondeterminism-sources", "table-closures-capture-values"}, Level: "proof", Explanation: "Canonical order of list-valued queries, nondeterminism-source sweep, package frame.", Assumptions: []string{"determinism of the host, StateDB and Aspect runtime"}},
	"C17": {ID: "C17", E1: true, Syntactic: []string{"package-frame", "abort-atomic-only", "no-goroutines", "table-closures-capture-values"}, Level: "proof", Explanation: "Ownership and poll lemmas only: instances share no mutable data (package frame, table closures capture plain values, shared tables rewritten only as private copies); abort touched only atomically. No interleaving is explored.", Assumptions: []string{"Go memory model, sync.Pool, the StateDB and the djpm global are trusted; schedules not explored"}},
	"C18": {ID: "C18", E2: true, E1: true, Level: "proof", Explanation: "EQ over tracers/** and every EVMLogger call site in vm; unary enter/exit balance on Call.", Assumptions: []string{"encoding/json omitempty semantics"}},
	"C19": {ID: "C19", E1: true, E2: true, Syntactic: []string{"loopvar-escape"}, Level: "proof", Explanation: "Safety sweep and tracer invariant on callTracer / flatCallTracer methods.", Assumptions: []string{"events arrive well nested (typestate preconditions)", "CALL/STATICCALL frames have a non-nil target (assumed data-structure invariant of stripPrecompileCall)"}},
	"C20": {ID: "C20", E1: true, E2: true, Ground: []string{"journal-table"}, Level: "proof", Explanation: "Ghost work counter bounded by a declared constant for every flat-fee instruction.", Assumptions: []string{"per-unit costs of StateDB reads and hashing are the reference schedule's"}},
}

// Order lists property ids in order.
var Order = []string{"C01", "C02", "C03", "C04", "C05", "C06", "C07", "C08", "C09", "C10", "C11", "C12", "C13", "C14", "C15", "C16", "C17", "C18", "C19", "C20"}
