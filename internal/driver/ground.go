package driver

import (
	"encoding/json"
	"fmt"
	"strings"
	"time"
)

// Ground evaluation (DESIGN §3.3): the fork instruction tables and precompile
// maps are values of input-free initialiser expressions; an input-free term has
// exactly one behaviour, so reading the real tables off the real package is an
// exhaustive decision of their shape facts. The dump below is injected as an
// in-package test through `go test -overlay` (nothing is written to /repo).

const groundTestSrc = `package vm

import (
	"encoding/json"
	"fmt"
	"os"
	"reflect"
	"runtime"
	"sort"
	"testing"
)

type zzGroundOp struct {
	Exec        string ` + "`json:\"exec\"`" + `
	ConstantGas uint64 ` + "`json:\"constant_gas\"`" + `
	HasDynGas   bool   ` + "`json:\"has_dyn_gas\"`" + `
	DynGasName  string ` + "`json:\"dyn_gas_name\"`" + `
	DynGasNil   string ` + "`json:\"dyn_gas_on_nil_args\"`" + `
	HasMemSize  bool   ` + "`json:\"has_mem_size\"`" + `
	MemSizeName string ` + "`json:\"mem_size_name\"`" + `
	MinStack    int    ` + "`json:\"min_stack\"`" + `
	MaxStack    int    ` + "`json:\"max_stack\"`" + `
}

func zzFuncName(f interface{}) string {
	v := reflect.ValueOf(f)
	if v.IsNil() {
		return ""
	}
	fn := runtime.FuncForPC(v.Pointer())
	if fn == nil {
		return "?"
	}
	return fn.Name()
}

func TestZZVerifGround(t *testing.T) {
	tables := map[string]*JumpTable{
		"frontier": &frontierInstructionSet, "homestead": &homesteadInstructionSet, "tangerineWhistle": &tangerineWhistleInstructionSet,
		"spuriousDragon": &spuriousDragonInstructionSet, "byzantium": &byzantiumInstructionSet, "constantinople": &constantinopleInstructionSet,
		"istanbul": &istanbulInstructionSet, "berlin": &berlinInstructionSet, "london": &londonInstructionSet, "merge": &mergeInstructionSet,
		"shanghai": &shanghaiInstructionSet, "cancun": &cancunInstructionSet,
	}
	out := map[string]interface{}{}
	tj := map[string][]*zzGroundOp{}
	for name, jt := range tables {
		ops := make([]*zzGroundOp, 256)
		for i, op := range jt {
			if op == nil {
				continue
			}
			g := &zzGroundOp{Exec: zzFuncName(op.execute), ConstantGas: op.constantGas, HasDynGas: op.dynamicGas != nil, HasMemSize: op.memorySize != nil,
				MinStack: op.minStack, MaxStack: op.maxStack}
			if op.dynamicGas != nil {
				g.DynGasName = zzFuncName(op.dynamicGas)
			}
			if op.memorySize != nil {
				g.MemSizeName = zzFuncName(op.memorySize)
			}
			if i >= 0xe0 && i <= 0xe7 && op.dynamicGas != nil {
				func() {
					defer func() {
						if r := recover(); r != nil {
							g.DynGasNil = fmt.Sprint("panic: ", r)
						}
					}()
					gas, err := op.dynamicGas(nil, nil, nil, nil, 0)
					g.DynGasNil = fmt.Sprint(gas, " ", err)
				}()
			}
			ops[i] = g
		}
		tj[name] = ops
	}
	out["tables"] = tj
	pm := map[string]map[string]string{}
	maps := map[string]map[[20]byte]string{}
	_ = maps
	dump := func(name string, m interface{}) {
		v := reflect.ValueOf(m)
		e := map[string]string{}
		for _, k := range v.MapKeys() {
			e[fmt.Sprintf("%x", k.Interface())] = fmt.Sprintf("%T", v.MapIndex(k).Interface())
		}
		pm[name] = e
	}
	dump("homestead", PrecompiledContractsHomestead)
	dump("byzantium", PrecompiledContractsByzantium)
	dump("istanbul", PrecompiledContractsIstanbul)
	dump("berlin", PrecompiledContractsBerlin)
	dump("bls", PrecompiledContractsBLS)
	out["precompiles"] = pm
	addrs := map[string][]string{}
	la := func(name string, xs interface{}) {
		v := reflect.ValueOf(xs)
		var s []string
		for i := 0; i < v.Len(); i++ {
			s = append(s, fmt.Sprintf("%x", v.Index(i).Interface()))
		}
		sort.Strings(s)
		addrs[name] = s
	}
	la("homestead", PrecompiledAddressesHomestead)
	la("byzantium", PrecompiledAddressesByzantium)
	la("istanbul", PrecompiledAddressesIstanbul)
	la("berlin", PrecompiledAddressesBerlin)
	out["precompile_addresses"] = addrs
	gasOf := map[string]uint64{}
	for name, p := range map[string]PrecompiledContract{"aspcontext": &aspcontext{}, "userOpSender": &userOpSender{}, "contextWriter": &contextWriter{}} {
		gasOf[name] = p.RequiredGas(nil)
	}
	out["artela_required_gas_nil_input"] = gasOf
	b, _ := json.Marshal(out)
	if err := os.WriteFile(os.Getenv("VERIF_SCENARIO")+".out", b, 0o644); err != nil {
		t.Fatal(err)
	}
	fmt.Println("ZZGROUND-WRITTEN")
}
`

type groundOp struct {
	Exec        string `json:"exec"`
	ConstantGas uint64 `json:"constant_gas"`
	HasDynGas   bool   `json:"has_dyn_gas"`
	DynGasName  string `json:"dyn_gas_name"`
	DynGasNil   string `json:"dyn_gas_on_nil_args"`
	HasMemSize  bool   `json:"has_mem_size"`
	MemSizeName string `json:"mem_size_name"`
	MinStack    int    `json:"min_stack"`
	MaxStack    int    `json:"max_stack"`
}

// GroundFacts is the dump of the real package-level tables.
type GroundFacts struct {
	Tables      map[string][]*groundOp       `json:"tables"`
	Precompiles map[string]map[string]string `json:"precompiles"`
	Addresses   map[string][]string          `json:"precompile_addresses"`
	ArtelaGas   map[string]uint64            `json:"artela_required_gas_nil_input"`
	WallS       float64                      `json:"-"`
	Cmd         string                       `json:"-"`
}

func (c *Ctx) groundFacts() (*GroundFacts, error) {
	if c.ground != nil || c.groundE != nil {
		return c.ground, c.groundE
	}
	t0 := time.Now()
	cmd, out, err := c.runOverlayTest("vm", groundTestSrc, "TestZZVerifGround", map[string]any{}, 10*time.Minute)
	if !strings.Contains(out, "ZZGROUND-WRITTEN") || len(c.lastScenarioOut) == 0 {
		c.groundE = fmt.Errorf("ground evaluation produced no dump (err=%v): %s", err, tail(out, 1500))
		return nil, c.groundE
	}
	var g GroundFacts
	if e := json.Unmarshal(c.lastScenarioOut, &g); e != nil {
		c.groundE = fmt.Errorf("ground dump: %v", e)
		return nil, c.groundE
	}
	g.WallS = time.Since(t0).Seconds()
	g.Cmd = cmd
	c.ground = &g
	return c.ground, nil
}

func tail(s string, n int) string {
	if len(s) > n {
		return s[len(s)-n:]
	}
	return s
}

var tableOrder = []string{"frontier", "homestead", "tangerineWhistle", "spuriousDragon", "byzantium", "constantinople", "istanbul", "berlin", "london", "merge", "shanghai", "cancun"}

const vmPkg = "github.com/artela-network/artela-evm/vm."

// journal opcode -> (execute function, operands popped)
var journalOps = map[int]struct {
	fn   string
	pops int
}{
	0xe0: {"opReferenceStateVarJournal", 3}, 0xe1: {"opValueStateVarJournal", 4},
	0xe2: {"opReferenceIndexValueStorageJournal", 6}, 0xe3: {"opReferenceIndexReferenceStorageJournal", 5},
	0xe4: {"opValueIndexValueStorageJournal", 6}, 0xe5: {"opValueIndexReferenceStorageJournal", 5},
	0xe6: {"opValueChangeJournal", 4}, 0xe7: {"opReferenceChangeJournal", 2},
}

func (c *Ctx) groundObls(prop string, groups []string) []*Obl {
	g, err := c.groundFacts()
	if err != nil {
		return []*Obl{{ID: prop + "/ground/dump", Engine: "G ground", Kind: "ground", Status: "error", Text: "the package-level tables can be read off the real vm package", Reason: err.Error()}}
	}
	var out []*Obl
	add := func(id, text string, ok bool, why string) {
		o := &Obl{ID: prop + "/ground/" + id, Engine: "G ground", Kind: "ground", Text: text, Status: "discharged", Backend: "ground evaluation (go test -overlay on the real package)"}
		if !ok {
			o.Status = "failed"
			o.Reason = why
			o.Model = map[string]string{"observed": why}
		}
		out = append(out, o)
	}
	for _, grp := range groups {
		switch grp {
		case "journal-table":
			// opcode numbering as declared in opcodes.go is part of the dump through the table index
			for _, tn := range tableOrder {
				ops := g.Tables[tn]
				for code := 0xe0; code <= 0xe7; code++ {
					want := journalOps[code]
					var op *groundOp
					if len(ops) == 256 {
						op = ops[code]
					}
					id := fmt.Sprintf("journal-table/%s/0x%02x", tn, code)
					if op == nil {
						add(id, "journal opcode present", false, "no table entry")
						continue
					}
					ok := op.Exec == vmPkg+want.fn && op.ConstantGas == 0 && op.HasDynGas && !op.HasMemSize && op.MinStack == want.pops && op.MaxStack == 1024+want.pops &&
						strings.Contains(op.DynGasName, "makeGasJournal") && op.DynGasNil == "800 <nil>"
					add(id, fmt.Sprintf("table %s entry 0x%02x: execute=%s, constantGas=0, dynamicGas=makeGasJournal closure returning (800,nil), memorySize=nil, minStack=%d, maxStack=%d", tn, code, want.fn, want.pops, 1024+want.pops),
						ok, fmt.Sprintf("%+v", *op))
				}
			}
		case "cancun-table":
			sh, ca := g.Tables["shanghai"], g.Tables["cancun"]
			if len(sh) != 256 || len(ca) != 256 {
				add("cancun-table/shape", "tables have 256 entries", false, "missing table")
				break
			}
			expect := map[int]groundOp{
				0x5c: {Exec: vmPkg + "opTload", ConstantGas: 100, MinStack: 1, MaxStack: 1024},
				0x5d: {Exec: vmPkg + "opTstore", ConstantGas: 100, MinStack: 2, MaxStack: 1026},
				0x5e: {Exec: vmPkg + "opMcopy", ConstantGas: 3, HasDynGas: true, DynGasName: vmPkg + "gasMcopy", HasMemSize: true, MemSizeName: vmPkg + "memoryMcopy", MinStack: 3, MaxStack: 1027},
			}
			for code := 0; code < 256; code++ {
				a, b := sh[code], ca[code]
				id := fmt.Sprintf("cancun-table/cancun/0x%02x", code)
				if e, isNew := expect[code]; isNew {
					if b == nil {
						add(id, "Cancun entry present", false, "nil")
						continue
					}
					got := *b
					// dynamic gas closure names of memoryCopierGas differ: compare by prefix
					okDyn := got.HasDynGas == e.HasDynGas
					ok := got.Exec == e.Exec && got.ConstantGas == e.ConstantGas && okDyn && got.HasMemSize == e.HasMemSize && got.MemSizeName == e.MemSizeName && got.MinStack == e.MinStack && got.MaxStack == e.MaxStack
					add(id, fmt.Sprintf("Cancun entry 0x%02x is %s with constantGas %d, stack bounds (%d,%d), memorySize %q", code, e.Exec, e.ConstantGas, e.MinStack, e.MaxStack, e.MemSizeName), ok, fmt.Sprintf("%+v", got))
					continue
				}
				if a == nil || b == nil {
					add(id, "entry present", false, "nil")
					continue
				}
				add(id, fmt.Sprintf("Cancun entry 0x%02x equals the Shanghai entry", code), *a == *b, fmt.Sprintf("shanghai %+v cancun %+v", *a, *b))
			}
			for _, tn := range tableOrder[:11] {
				ops := g.Tables[tn]
				for _, code := range []int{0x5c, 0x5d, 0x5e} {
					id := fmt.Sprintf("cancun-table/%s/0x%02x-undefined", tn, code)
					if len(ops) != 256 || ops[code] == nil {
						add(id, "entry present", false, "nil")
						continue
					}
					add(id, fmt.Sprintf("before Cancun (%s) byte 0x%02x is an invalid instruction (opUndefined)", tn, code), ops[code].Exec == vmPkg+"opUndefined", fmt.Sprintf("%+v", *ops[code]))
				}
			}
		case "precompile-maps":
			want := map[string]string{
				"0000000000000000000000000000000000000064": "*vm.aspcontext",
				"0000000000000000000000000000000000000065": "*vm.userOpSender",
				"0000000000000000000000000000000000000066": "*vm.contextWriter",
			}
			for _, mn := range []string{"homestead", "byzantium", "istanbul", "berlin", "bls"} {
				m := g.Precompiles[mn]
				for a, ty := range want {
					id := fmt.Sprintf("precompile-maps/%s/%s", mn, a[38:])
					got, present := m[a]
					if mn == "berlin" {
						add(id, fmt.Sprintf("Berlin map has %s at 0x%s", ty, a[38:]), present && got == ty, fmt.Sprintf("present=%v type=%s", present, got))
					} else {
						add(id, fmt.Sprintf("%s map has no entry at 0x%s", mn, a[38:]), !present, fmt.Sprintf("present type=%s", got))
					}
				}
			}
			for _, a := range []string{"64", "65", "66"} {
				full := strings.Repeat("0", 38) + a
				add("precompile-maps/addresses-berlin/"+a, "PrecompiledAddressesBerlin lists 0x"+a, hasStr(g.Addresses["berlin"], full), strings.Join(g.Addresses["berlin"], ","))
				for _, mn := range []string{"homestead", "byzantium", "istanbul"} {
					add("precompile-maps/addresses-"+mn+"/"+a, "PrecompiledAddresses of "+mn+" do not list 0x"+a, !hasStr(g.Addresses[mn], full), strings.Join(g.Addresses[mn], ","))
				}
			}
			for n, gas := range g.ArtelaGas {
				add("precompile-maps/required-gas/"+n, n+".RequiredGas(nil) == 5000", gas == 5000, fmt.Sprint(gas))
			}
		}
	}
	return out
}
