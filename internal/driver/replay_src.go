package driver

// replayTestSrc is injected into package vm of /repo as zz_verif_replay_test.go through
// `go test -overlay` (nothing is written to /repo). It executes ONE scenario read from
// $VERIF_SCENARIO against the real functions and prints a line "ZZREPLAY <json>".
const replayTestSrc = `package vm

import (
	"context"
	"encoding/hex"
	"encoding/json"
	"fmt"
	"math/big"
	"os"
	"strings"
	"testing"

	"errors"

	"github.com/artela-network/aspect-core/djpm"
	aspecttypes "github.com/artela-network/aspect-core/types"
	"github.com/ethereum/go-ethereum/common"
	"github.com/ethereum/go-ethereum/core/rawdb"
	"github.com/ethereum/go-ethereum/core/state"
	"github.com/ethereum/go-ethereum/params"
	"github.com/holiman/uint256"
)

type zzScenario struct {
	Kind     string            ` + "`json:\"kind\"`" + `
	Func     string            ` + "`json:\"func\"`" + `
	Input    string            ` + "`json:\"input\"`" + `
	InputNil bool              ` + "`json:\"input_nil\"`" + `
	Index    int               ` + "`json:\"index\"`" + `
	Ptr      string            ` + "`json:\"ptr\"`" + `
	Mem      string            ` + "`json:\"mem\"`" + `
	Dst      uint64            ` + "`json:\"dst\"`" + `
	Src      uint64            ` + "`json:\"src\"`" + `
	Len      uint64            ` + "`json:\"len\"`" + `
	Stack    []string          ` + "`json:\"stack\"`" + ` // top first
	Storage  map[string]string ` + "`json:\"storage\"`" + `
	ReadOnly bool              ` + "`json:\"read_only\"`" + `
	CtxNil   bool              ` + "`json:\"ctx_nil\"`" + `
	Code     string            ` + "`json:\"code\"`" + `
	Value    int64             ` + "`json:\"value\"`" + `
	Gas      uint64            ` + "`json:\"gas\"`" + `
	JPOff    bool              ` + "`json:\"jp_off\"`" + `
	FailAt   string            ` + "`json:\"fail_at\"`" + `
	FailErr  string            ` + "`json:\"fail_err\"`" + `
}

type zzProvider struct {
	failAt, failErr string
	fired           []string
}

func (p *zzProvider) GetTxBondAspects(_ context.Context, a common.Address, pc aspecttypes.PointCut) ([]*aspecttypes.AspectCode, error) {
	p.fired = append(p.fired, string(pc))
	if p.failAt != "" && string(pc) == p.failAt {
		return nil, errors.New(p.failErr)
	}
	return nil, nil
}
func (p *zzProvider) GetAccountVerifiers(context.Context, common.Address) ([]*aspecttypes.AspectCode, error) {
	return nil, nil
}
func (p *zzProvider) GetLatestBlock() int64 { return 1 }

type zzResult struct {
	Gas        uint64   ` + "`json:\"gas_left\"`" + `
	CalleeBal  string   ` + "`json:\"callee_balance_after\"`" + `
	CallerBal  string   ` + "`json:\"caller_balance_after\"`" + `
	Fired      []string ` + "`json:\"join_points_fired\"`" + `
	Slot0      string   ` + "`json:\"callee_slot0_after\"`" + `
	Panicked bool     ` + "`json:\"panicked\"`" + `
	Panic    string   ` + "`json:\"panic,omitempty\"`" + `
	Err      string   ` + "`json:\"err,omitempty\"`" + `
	Out      string   ` + "`json:\"out,omitempty\"`" + `
	OutLen   int      ` + "`json:\"out_len\"`" + `
	StackLen int      ` + "`json:\"stack_len\"`" + `
	Notes    []string ` + "`json:\"notes,omitempty\"`" + `
}

func zzHex(s string) []byte {
	s = strings.TrimPrefix(s, "0x")
	if len(s)%2 == 1 {
		s = "0" + s
	}
	b, err := hex.DecodeString(s)
	if err != nil {
		panic("bad hex in scenario: " + err.Error())
	}
	return b
}

func zzU256(s string) *uint256.Int {
	return new(uint256.Int).SetBytes(zzHex(s))
}

func TestZZVerifReplay(t *testing.T) {
	raw, err := os.ReadFile(os.Getenv("VERIF_SCENARIO"))
	if err != nil {
		t.Fatal(err)
	}
	var sc zzScenario
	if err := json.Unmarshal(raw, &sc); err != nil {
		t.Fatal(err)
	}
	res := &zzResult{}
	func() {
		defer func() {
			if r := recover(); r != nil {
				res.Panicked = true
				res.Panic = fmt.Sprint(r)
			}
		}()
		zzRun(&sc, res)
	}()
	b, _ := json.Marshal(res)
	fmt.Println("ZZREPLAY " + string(b))
}

func zzSetErr(res *zzResult, err error) {
	if err != nil {
		res.Err = err.Error()
		if res.Err == "" {
			res.Err = "(empty error text)"
		}
	}
}

func zzRun(sc *zzScenario, res *zzResult) {
	switch sc.Kind {
	case "loadParamBytes":
		var in []byte
		if !sc.InputNil {
			in = zzHex(sc.Input)
		}
		out, err := loadParamBytes(in, sc.Index)
		zzSetErr(res, err)
		res.Out, res.OutLen = hex.EncodeToString(out), len(out)
	case "loadDataFromMem":
		mem := NewMemory()
		m := zzHex(sc.Mem)
		mem.Resize(uint64(len(m)))
		copy(mem.store, m)
		out, n, err := loadDataFromMem(zzU256(sc.Ptr), mem)
		zzSetErr(res, err)
		res.Out, res.OutLen = hex.EncodeToString(out), len(out)
		res.Notes = append(res.Notes, fmt.Sprint("n=", n))
	case "memcopy":
		mem := NewMemory()
		m := zzHex(sc.Mem)
		mem.Resize(uint64(len(m)))
		copy(mem.store, m)
		mem.Copy(sc.Dst, sc.Src, sc.Len)
		res.Out, res.OutLen = hex.EncodeToString(mem.store), len(mem.store)
	case "precompile":
		var in []byte
		if !sc.InputNil {
			in = zzHex(sc.Input)
		}
		var p PrecompiledContract
		switch sc.Func {
		case "aspcontext":
			p = &aspcontext{}
		case "userOpSender":
			p = &userOpSender{}
		case "contextWriter":
			if sc.CtxNil {
				p = &contextWriter{}
			} else {
				p = (&contextWriter{}).CloneWithCtx(&ExecutionContext{from: common.HexToAddress("0xaa"), to: common.HexToAddress("0x66"), value: big.NewInt(0)})
			}
		default:
			panic("unknown precompile " + sc.Func)
		}
		out, err := p.Run(context.Background(), in)
		zzSetErr(res, err)
		res.Out, res.OutLen = hex.EncodeToString(out), len(out)
	case "opcode":
		ops := map[string]executionFunc{
			"opValueChangeJournal": opValueChangeJournal, "opReferenceChangeJournal": opReferenceChangeJournal,
			"opReferenceIndexValueStorageJournal": opReferenceIndexValueStorageJournal, "opValueIndexValueStorageJournal": opValueIndexValueStorageJournal,
			"opReferenceIndexReferenceStorageJournal": opReferenceIndexReferenceStorageJournal, "opValueIndexReferenceStorageJournal": opValueIndexReferenceStorageJournal,
			"opReferenceStateVarJournal": opReferenceStateVarJournal, "opValueStateVarJournal": opValueStateVarJournal,
			"opMcopy": opMcopy, "opTload": opTload, "opTstore": opTstore,
		}
		op, ok := ops[sc.Func]
		if !ok {
			panic("unknown opcode function " + sc.Func)
		}
		statedb, _ := state.New(common.Hash{}, state.NewDatabase(rawdb.NewMemoryDatabase()), nil)
		self := common.HexToAddress("0xc0de")
		statedb.CreateAccount(self)
		for k, v := range sc.Storage {
			statedb.SetState(self, common.BytesToHash(zzHex(k)), common.BytesToHash(zzHex(v)))
		}
		cfg := *params.AllEthashProtocolChanges
		evm := NewEVM(BlockContext{BlockNumber: big.NewInt(1), Difficulty: big.NewInt(0), CanTransfer: func(StateDB, common.Address, *big.Int) bool { return true },
			Transfer: func(StateDB, common.Address, common.Address, *big.Int) {}}, TxContext{GasPrice: big.NewInt(0)}, statedb, &cfg, Config{})
		in := evm.interpreter
		in.readOnly = sc.ReadOnly
		stack := newstack()
		for i := len(sc.Stack) - 1; i >= 0; i-- {
			stack.push(zzU256(sc.Stack[i]))
		}
		mem := NewMemory()
		m := zzHex(sc.Mem)
		mem.Resize(uint64(len(m)))
		copy(mem.store, m)
		contract := NewContract(AccountRef(common.HexToAddress("0xca11e4")), AccountRef(self), big.NewInt(0), 1000000)
		scope := &ScopeContext{Memory: mem, Stack: stack, Contract: contract}
		pc := uint64(0)
		out, err := op(context.Background(), &pc, in, scope)
		zzSetErr(res, err)
		res.Out, res.OutLen = hex.EncodeToString(out), len(out)
		res.StackLen = stack.len()
	case "evmcall":
		// one top-level CALL with a scripted Aspect provider: caller 0xaa (balance 1000) -> callee 0xbb (code from the scenario)
		prov := &zzProvider{failAt: sc.FailAt, failErr: sc.FailErr}
		djpm.NewAspect(prov, aspecttypes.NoOpsLogger{})
		statedb, _ := state.New(common.Hash{}, state.NewDatabase(rawdb.NewMemoryDatabase()), nil)
		caller, callee := common.HexToAddress("0xaa"), common.HexToAddress("0xbb")
		statedb.CreateAccount(caller)
		statedb.AddBalance(caller, big.NewInt(1000))
		statedb.CreateAccount(callee)
		statedb.SetCode(callee, zzHex(sc.Code))
		statedb.AddAddressToAccessList(caller)
		statedb.AddAddressToAccessList(callee)
		statedb.AddSlotToAccessList(callee, common.Hash{})
		cfg := *params.AllEthashProtocolChanges
		evm := NewEVM(BlockContext{BlockNumber: big.NewInt(1), Difficulty: big.NewInt(0), GasLimit: 10000000,
			CanTransfer: func(db StateDB, a common.Address, v *big.Int) bool { return db.GetBalance(a).Cmp(v) >= 0 },
			Transfer: func(db StateDB, f, t common.Address, v *big.Int) { db.SubBalance(f, v); db.AddBalance(t, v) },
			GetHash:  func(uint64) common.Hash { return common.Hash{} }}, TxContext{GasPrice: big.NewInt(0)}, statedb, &cfg, Config{})
		if sc.JPOff {
			evm.CloseAspectCall()
		}
		out, left, err := evm.Call(context.Background(), AccountRef(caller), callee, zzHex(sc.Input), sc.Gas, big.NewInt(sc.Value))
		zzSetErr(res, err)
		res.Out, res.OutLen, res.Gas = hex.EncodeToString(out), len(out), left
		res.CalleeBal, res.CallerBal = statedb.GetBalance(callee).String(), statedb.GetBalance(caller).String()
		res.Slot0 = statedb.GetState(callee, common.Hash{}).Hex()
		res.Fired = prov.fired
		if evm.depth != 0 || evm.tracer.callTree.current != nil {
			res.Notes = append(res.Notes, "bookkeeping-open")
		}
	case "keytree":
		// two registrations under one root that share (slot, offset) but differ in type id, then a change for the second
		tr := NewTracer()
		acct := common.HexToAddress("0xc0de")
		tA, tB := common.Hash{0xa}, common.Hash{0xb}
		e1 := tr.SaveStateKey(acct, nil, uint256.NewInt(1), nil, tA, common.Hash{}, []byte("a"))
		e2 := tr.SaveStateKey(acct, nil, uint256.NewInt(1), nil, tB, common.Hash{}, []byte("b"))
		res.Notes = append(res.Notes, fmt.Sprint("register a: ", e1, "; register b: ", e2))
		byName := tr.StateChanges().FindKeyIndices(acct, "b")
		bySlot, e3 := tr.StateChanges().Slot(acct, uint256.NewInt(1), nil, tB)
		e4 := tr.SaveStateChange(acct, uint256.NewInt(1), nil, tB, []byte{1})
		res.Notes = append(res.Notes, fmt.Sprintf("by-name(b) found=%v; by-slot(1,0,typeB) changes=%v err=%v; journal change for b: %v", byName != nil, bySlot != nil, e3, e4))
		if e2 == nil && byName != nil && e4 != nil {
			res.Notes = append(res.Notes, "disagree: b is registered and reachable by name, but a change for its (slot, offset, type) is refused")
		}
	case "maporder":
		// a key with 8 children; the list-valued query is repeated: two different answers = nondeterminism observed
		tr := NewTracer()
		acct := common.HexToAddress("0xc0de")
		if err := tr.SaveStateKey(acct, nil, uint256.NewInt(1), nil, common.Hash{1}, common.Hash{}, []byte("m")); err != nil {
			panic(err)
		}
		for i := 0; i < 8; i++ {
			if err := tr.SaveStateKey(acct, uint256.NewInt(1), uint256.NewInt(uint64(100+i)), nil, common.Hash{2}, common.Hash{1}, []byte{byte('a' + i)}); err != nil {
				panic(err)
			}
		}
		render := func() string {
			var parts []string
			switch sc.Func {
			case "(*vm.StorageKey).Children":
				for _, k := range tr.StateChanges().FindKeyIndices(acct, "m").Children() {
					parts = append(parts, string(k.data))
				}
			case "(*vm.StorageKey).ChildrenIndices":
				for _, b := range tr.StateChanges().FindKeyIndices(acct, "m").ChildrenIndices() {
					parts = append(parts, string(b))
				}
			case "(*vm.StateChanges).IndicesOfChanges":
				for _, b := range tr.StateChanges().IndicesOfChanges(acct, "m") {
					parts = append(parts, string(b))
				}
			default:
				panic("unknown list query " + sc.Func)
			}
			return strings.Join(parts, ",")
		}
		first := render()
		res.Out = first
		for i := 0; i < 200; i++ {
			if r := render(); r != first {
				res.Notes = append(res.Notes, "order-differs: "+first+" vs "+r)
				break
			}
		}
	default:
		panic("unknown scenario kind " + sc.Kind)
	}
}
`

// nativeReplayTestSrc is injected into package native (tracers/native) of /repo: it feeds one event stream to
// the real call tracer or flat call tracer and prints "ZZREPLAY <json>".
const nativeReplayTestSrc = `package native

import (
	"encoding/json"
	"errors"
	"fmt"
	"math/big"
	"os"
	"testing"

	"github.com/artela-network/artela-evm/vm"
	aspecttypes "github.com/artela-network/aspect-core/types"
	"github.com/ethereum/go-ethereum/common"
	"github.com/ethereum/go-ethereum/core/rawdb"
	gethstate "github.com/ethereum/go-ethereum/core/state"
	"github.com/ethereum/go-ethereum/params"
)

type zzEvent struct {
	Ev      string ` + "`json:\"ev\"`" + `
	JP      int32  ` + "`json:\"jp\"`" + `
	Aspect  string ` + "`json:\"aspect\"`" + `
	Gas     uint64 ` + "`json:\"gas\"`" + `
	GasLeft uint64 ` + "`json:\"gas_left\"`" + `
	To      string ` + "`json:\"to\"`" + `
	Err     string ` + "`json:\"err\"`" + `
}

type zzStream struct {
	Tracer string    ` + "`json:\"tracer\"`" + `
	Events []zzEvent ` + "`json:\"events\"`" + `
}

func TestZZVerifReplay(t *testing.T) {
	raw, err := os.ReadFile(os.Getenv("VERIF_SCENARIO"))
	if err != nil {
		t.Fatal(err)
	}
	var sc zzStream
	if err := json.Unmarshal(raw, &sc); err != nil {
		t.Fatal(err)
	}
	res := map[string]interface{}{"panicked": false}
	func() {
		defer func() {
			if r := recover(); r != nil {
				res["panicked"] = true
				res["panic"] = fmt.Sprint(r)
			}
		}()
		statedb, _ := gethstate.New(common.Hash{}, gethstate.NewDatabase(rawdb.NewMemoryDatabase()), nil)
		cfg := *params.AllEthashProtocolChanges
		env := vm.NewEVM(vm.BlockContext{BlockNumber: big.NewInt(1), Difficulty: big.NewInt(0)}, vm.TxContext{GasPrice: big.NewInt(0)}, statedb, &cfg, vm.Config{})
		var tr interface {
			vm.EVMLogger
			aspecttypes.AspectLogger
			GetResult() (json.RawMessage, error)
		}
		if sc.Tracer == "flat" {
			x, e := newFlatCallTracer(nil, nil)
			if e != nil {
				panic(e)
			}
			tr = x.(*flatCallTracer)
		} else {
			x, e := newCallTracer(nil, nil)
			if e != nil {
				panic(e)
			}
			tr = x.(*callTracer)
		}
		from := common.HexToAddress("0xaa")
		for _, ev := range sc.Events {
			var e error
			if ev.Err != "" {
				e = errors.New(ev.Err)
			}
			to := common.HexToAddress(ev.To)
			switch ev.Ev {
			case "txstart":
				tr.CaptureTxStart(ev.Gas)
			case "txend":
				tr.CaptureTxEnd(ev.GasLeft)
			case "start":
				tr.CaptureStart(env, from, to, false, nil, ev.Gas, big.NewInt(0))
			case "end":
				tr.CaptureEnd(nil, ev.Gas, e)
			case "enter":
				tr.CaptureEnter(vm.CALL, from, to, nil, ev.Gas, big.NewInt(0))
			case "exit":
				tr.CaptureExit(nil, ev.Gas, e)
			case "aspectenter":
				tr.CaptureAspectEnter(aspecttypes.JoinPointRunType(ev.JP), from, to, common.HexToAddress(ev.Aspect), nil, ev.Gas, big.NewInt(0), nil)
			case "aspectexit":
				tr.CaptureAspectExit(aspecttypes.JoinPointRunType(ev.JP), &aspecttypes.AspectExecutionResult{Gas: ev.GasLeft, Err: e})
			default:
				panic("unknown event " + ev.Ev)
			}
		}
		out, e := tr.GetResult()
		if e != nil {
			res["result_err"] = e.Error()
		}
		res["result"] = json.RawMessage(out)
	}()
	b, _ := json.Marshal(res)
	fmt.Println("ZZREPLAY " + string(b))
}
`
