package driver

import (
	"bytes"
	"encoding/json"
	"fmt"
	"os"
	"os/exec"
	"path/filepath"
	"strings"
	"time"
)

// ReplayFile is what /verif/replays/<prop>-<obligation>.json contains.
type ReplayFile struct {
	Property     string            `json:"property"`
	Obligation   string            `json:"obligation"`
	Engine       string            `json:"engine"`
	Kind         string            `json:"kind"`
	Func         string            `json:"func,omitempty"`
	Pos          string            `json:"pos,omitempty"`
	Clause       string            `json:"clause"`
	Status       string            `json:"status"`
	SolverOutput string            `json:"verifier_output"`
	Model        map[string]string `json:"model,omitempty"`
	Diff         string            `json:"diff,omitempty"`
	PassedBefore bool              `json:"discharged_on_unchanged_tree"`
	Replay       *ReplayRun        `json:"replay,omitempty"`
	Note         string            `json:"note"`
}

// ReplayRun records one execution of the real code on the counterexample.
type ReplayRun struct {
	Driver    string         `json:"driver"`
	Scenario  map[string]any `json:"scenario"`
	Command   string         `json:"command"`
	Output    string         `json:"output"`
	Observed  string         `json:"observed"`
	Confirmed bool           `json:"confirmed"`
}

// replayer builds a concrete scenario from the model of a failed obligation and runs it on the real code.
type replayer func(c *Ctx, prop string, o *Obl) *ReplayRun

// replayers is keyed by the function under contract (o.Func).
var replayers = map[string]replayer{}

func (c *Ctx) replay(prop string, o *Obl, passedBefore bool) (string, bool) {
	rf := &ReplayFile{Property: prop, Obligation: o.ID, Engine: o.Engine, Kind: o.Kind, Func: o.Func, Pos: o.Pos, Clause: o.Text, Status: o.Status,
		SolverOutput: o.Reason, Model: o.Model, Diff: o.Diff, PassedBefore: passedBefore}
	confirmed := false
	if o.Status == "failed" {
		if r, ok := replayers[o.Func]; ok {
			run := r(c, prop, o)
			if run != nil {
				rf.Replay = run
				confirmed = run.Confirmed
			}
		}
	}
	switch {
	case confirmed:
		rf.Note = "the verifier's counterexample was executed against the real code and reproduces the violation"
	case rf.Replay != nil:
		rf.Note = "the verifier's counterexample was executed against the real code but did not reproduce the violation (imprecision of a model or of the assumed contracts); the obligation is nevertheless undischarged: no-failing-input-found"
	case o.Status == "failed":
		rf.Note = "obligation refuted by the solver (sat) but no replay driver exists for this function: no-failing-input-found"
	default:
		rf.Note = "obligation undischarged (" + o.Status + "): the proof that passed on the unchanged tree no longer goes through; no counterexample available: no-failing-input-found"
	}
	path := filepath.Join(c.Opt.VerifDir, "replays", prop+"-"+sanitize(o.ID)+".json")
	_ = writeJSON(path, rf)
	return path, confirmed
}

// runOverlayTest injects testSrc as <pkgdir>/zz_verif_replay_test.go through -overlay (nothing is written to /repo)
// and runs the named test with the scenario file in VERIF_SCENARIO.
func (c *Ctx) runOverlayTest(pkgRel, testSrc, runName string, scenario any, timeout time.Duration) (string, string, error) {
	dir, err := os.MkdirTemp("", "verif-replay-")
	if err != nil {
		return "", "", err
	}
	defer os.RemoveAll(dir)
	src := filepath.Join(dir, "zz_verif_replay_test.go")
	if err := os.WriteFile(src, []byte(testSrc), 0o644); err != nil {
		return "", "", err
	}
	scen := filepath.Join(dir, "scenario.json")
	sb, _ := json.MarshalIndent(scenario, "", " ")
	if err := os.WriteFile(scen, sb, 0o644); err != nil {
		return "", "", err
	}
	ov := map[string]any{"Replace": map[string]string{filepath.Join(c.Opt.RepoDir, pkgRel, "zz_verif_replay_test.go"): src}}
	ob, _ := json.Marshal(ov)
	ovf := filepath.Join(dir, "overlay.json")
	if err := os.WriteFile(ovf, ob, 0o644); err != nil {
		return "", "", err
	}
	args := []string{"test", "-overlay", ovf, "-vet=off", "-count=1", "-timeout", fmt.Sprintf("%ds", int(timeout.Seconds())), "-run", "^" + runName + "$", "-v", "./" + pkgRel}
	cmd := exec.Command("go", args...)
	cmd.Dir = c.Opt.RepoDir
	cmd.Env = append(os.Environ(), "GOFLAGS=-mod=mod", "GOPROXY=off", "GOSUMDB=off", "GOTOOLCHAIN=local", "VERIF_SCENARIO="+scen)
	var out bytes.Buffer
	cmd.Stdout = &out
	cmd.Stderr = &out
	err = cmd.Run()
	c.lastScenarioOut, _ = os.ReadFile(scen + ".out")
	o := out.String()
	if len(o) > 20000 {
		o = o[:20000] + "...[truncated]"
	}
	return "cd " + c.Opt.RepoDir + " && VERIF_SCENARIO=<scenario> go " + strings.Join(args, " "), o, err
}
