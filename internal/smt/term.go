// Package smt is a small hash-consed SMT-LIB term builder with light
// simplification, a script printer (one script per obligation, cone of
// influence only) and a solver racer (z3-new, z3, cvc5).
package smt

import (
	"fmt"
	"math/big"
	"sort"
	"strings"
)

type SortKind int

const (
	KBool SortKind = iota
	KBV
	KArray
)

type Sort struct {
	Kind SortKind
	W    int
	Idx  *Sort
	Elem *Sort
}

var Bool = &Sort{Kind: KBool}
var bvSorts = map[int]*Sort{}
var arrSorts = map[string]*Sort{}

func BV(w int) *Sort {
	if w <= 0 {
		panic(fmt.Sprintf("BV width %d", w))
	}
	if s, ok := bvSorts[w]; ok {
		return s
	}
	s := &Sort{Kind: KBV, W: w}
	bvSorts[w] = s
	return s
}

func Array(idx, elem *Sort) *Sort {
	k := idx.String() + "->" + elem.String()
	if s, ok := arrSorts[k]; ok {
		return s
	}
	s := &Sort{Kind: KArray, Idx: idx, Elem: elem}
	arrSorts[k] = s
	return s
}

func (s *Sort) String() string {
	switch s.Kind {
	case KBool:
		return "Bool"
	case KBV:
		return fmt.Sprintf("(_ BitVec %d)", s.W)
	default:
		return fmt.Sprintf("(Array %s %s)", s.Idx, s.Elem)
	}
}

type Term struct {
	ID    int
	Op    string // SMT operator, or "const", "lit", "true", "false", "extract", "zext", "sext", "forall", "exists", "app"
	Args  []*Term
	Sort  *Sort
	Name  string   // const / app function name / bound var
	Val   *big.Int // lit
	P1    int      // extract hi / ext amount
	P2    int      // extract lo
	Bound []*Term  // quantifier bound vars
	hasBV bool     // contains a bound variable
}

// Ctx owns the hash-cons table and declared symbols.
type Ctx struct {
	tab    map[string]*Term
	n      int
	Funs   map[string]*FunDecl // uninterpreted functions
	fresh  map[string]int
	consts map[string]*Term
}

type FunDecl struct {
	Name string
	Args []*Sort
	Ret  *Sort
}

func NewCtx() *Ctx {
	return &Ctx{tab: map[string]*Term{}, Funs: map[string]*FunDecl{}, fresh: map[string]int{}, consts: map[string]*Term{}}
}

func (c *Ctx) mk(t *Term) *Term {
	var sb strings.Builder
	sb.WriteString(t.Op)
	sb.WriteByte('|')
	sb.WriteString(t.Name)
	sb.WriteByte('|')
	if t.Val != nil {
		sb.WriteString(t.Val.Text(16))
	}
	fmt.Fprintf(&sb, "|%d|%d|%s", t.P1, t.P2, t.Sort)
	for _, a := range t.Args {
		fmt.Fprintf(&sb, ",%d", a.ID)
	}
	for _, a := range t.Bound {
		fmt.Fprintf(&sb, ";%d", a.ID)
	}
	k := sb.String()
	if e, ok := c.tab[k]; ok {
		return e
	}
	c.n++
	t.ID = c.n
	for _, a := range t.Args {
		if a.hasBV {
			t.hasBV = true
		}
	}
	if t.Op == "bound" {
		t.hasBV = true
	}
	c.tab[k] = t
	return t
}

func sanitize(s string) string {
	var sb strings.Builder
	for _, r := range s {
		switch {
		case r >= 'a' && r <= 'z', r >= 'A' && r <= 'Z', r >= '0' && r <= '9', r == '_', r == '.', r == '$', r == '!', r == '#', r == '@', r == '-', r == '/', r == '*', r == '[', r == ']', r == ':', r == '>', r == '<', r == '+':
			sb.WriteRune(r)
		default:
			sb.WriteRune('_')
		}
	}
	return sb.String()
}

func quote(s string) string { return "|" + sanitize(s) + "|" }

// Const returns the (unique) constant with that name.
func (c *Ctx) Const(name string, s *Sort) *Term {
	if t, ok := c.consts[name]; ok {
		if t.Sort != s {
			panic(fmt.Sprintf("const %s redeclared %s vs %s", name, t.Sort, s))
		}
		return t
	}
	t := c.mk(&Term{Op: "const", Name: name, Sort: s})
	c.consts[name] = t
	return t
}

// Fresh returns a new constant with a unique name derived from hint.
func (c *Ctx) Fresh(hint string, s *Sort) *Term {
	c.fresh[hint]++
	return c.Const(fmt.Sprintf("%s!%d", hint, c.fresh[hint]), s)
}

func (c *Ctx) BoundVar(name string, s *Sort) *Term {
	c.fresh["bv:"+name]++
	return c.mk(&Term{Op: "bound", Name: fmt.Sprintf("%s?%d", name, c.fresh["bv:"+name]), Sort: s})
}

func (c *Ctx) True() *Term  { return c.mk(&Term{Op: "true", Sort: Bool}) }
func (c *Ctx) False() *Term { return c.mk(&Term{Op: "false", Sort: Bool}) }
func (c *Ctx) BoolLit(b bool) *Term {
	if b {
		return c.True()
	}
	return c.False()
}

func (c *Ctx) Lit(v *big.Int, w int) *Term {
	m := new(big.Int).Lsh(big.NewInt(1), uint(w))
	x := new(big.Int).Mod(v, m)
	return c.mk(&Term{Op: "lit", Val: x, Sort: BV(w)})
}
func (c *Ctx) LitU(v uint64, w int) *Term { return c.Lit(new(big.Int).SetUint64(v), w) }
func (c *Ctx) LitI(v int64, w int) *Term  { return c.Lit(big.NewInt(v), w) }

func (t *Term) IsLit() bool   { return t.Op == "lit" }
func (t *Term) IsTrue() bool  { return t.Op == "true" }
func (t *Term) IsFalse() bool { return t.Op == "false" }

func (c *Ctx) Not(a *Term) *Term {
	if a.IsTrue() {
		return c.False()
	}
	if a.IsFalse() {
		return c.True()
	}
	if a.Op == "not" {
		return a.Args[0]
	}
	return c.mk(&Term{Op: "not", Args: []*Term{a}, Sort: Bool})
}

func (c *Ctx) And(as ...*Term) *Term {
	var out []*Term
	seen := map[int]bool{}
	for _, a := range as {
		if a == nil || a.IsTrue() {
			continue
		}
		if a.IsFalse() {
			return c.False()
		}
		if a.Op == "and" {
			for _, b := range a.Args {
				if !seen[b.ID] {
					seen[b.ID] = true
					out = append(out, b)
				}
			}
			continue
		}
		if !seen[a.ID] {
			seen[a.ID] = true
			out = append(out, a)
		}
	}
	if len(out) == 0 {
		return c.True()
	}
	if len(out) == 1 {
		return out[0]
	}
	return c.mk(&Term{Op: "and", Args: out, Sort: Bool})
}

func (c *Ctx) Or(as ...*Term) *Term {
	var out []*Term
	seen := map[int]bool{}
	for _, a := range as {
		if a == nil || a.IsFalse() {
			continue
		}
		if a.IsTrue() {
			return c.True()
		}
		if a.Op == "or" {
			for _, b := range a.Args {
				if !seen[b.ID] {
					seen[b.ID] = true
					out = append(out, b)
				}
			}
			continue
		}
		if !seen[a.ID] {
			seen[a.ID] = true
			out = append(out, a)
		}
	}
	if len(out) == 0 {
		return c.False()
	}
	if len(out) == 1 {
		return out[0]
	}
	return c.mk(&Term{Op: "or", Args: out, Sort: Bool})
}

func (c *Ctx) Implies(a, b *Term) *Term {
	if a.IsTrue() {
		return b
	}
	if a.IsFalse() || b.IsTrue() {
		return c.True()
	}
	return c.mk(&Term{Op: "=>", Args: []*Term{a, b}, Sort: Bool})
}

func (c *Ctx) Ite(cond, a, b *Term) *Term {
	if a.Sort != b.Sort {
		panic(fmt.Sprintf("ite sorts %s vs %s", a.Sort, b.Sort))
	}
	if cond.IsTrue() {
		return a
	}
	if cond.IsFalse() {
		return b
	}
	if a == b {
		return a
	}
	if a.Sort == Bool {
		if a.IsTrue() && b.IsFalse() {
			return cond
		}
		if a.IsFalse() && b.IsTrue() {
			return c.Not(cond)
		}
	}
	return c.mk(&Term{Op: "ite", Args: []*Term{cond, a, b}, Sort: a.Sort})
}

func (c *Ctx) Eq(a, b *Term) *Term {
	if a.Sort != b.Sort {
		panic(fmt.Sprintf("eq sorts %s vs %s (%s / %s)", a.Sort, b.Sort, a.Short(), b.Short()))
	}
	if a == b {
		return c.True()
	}
	if a.IsLit() && b.IsLit() {
		return c.BoolLit(a.Val.Cmp(b.Val) == 0)
	}
	if a.Sort == Bool {
		if a.IsTrue() {
			return b
		}
		if b.IsTrue() {
			return a
		}
		if a.IsFalse() {
			return c.Not(b)
		}
		if b.IsFalse() {
			return c.Not(a)
		}
	}
	if a.ID > b.ID {
		a, b = b, a
	}
	return c.mk(&Term{Op: "=", Args: []*Term{a, b}, Sort: Bool})
}

func (c *Ctx) Ne(a, b *Term) *Term { return c.Not(c.Eq(a, b)) }

// BV binary op with result sort = operand sort
func (c *Ctx) BVOp(op string, a, b *Term) *Term {
	if a.Sort != b.Sort {
		panic(fmt.Sprintf("%s sorts %s vs %s (%s / %s)", op, a.Sort, b.Sort, a.Short(), b.Short()))
	}
	if a.IsLit() && b.IsLit() {
		w := a.Sort.W
		switch op {
		case "bvadd":
			return c.Lit(new(big.Int).Add(a.Val, b.Val), w)
		case "bvsub":
			return c.Lit(new(big.Int).Sub(a.Val, b.Val), w)
		case "bvmul":
			return c.Lit(new(big.Int).Mul(a.Val, b.Val), w)
		case "bvand":
			return c.Lit(new(big.Int).And(a.Val, b.Val), w)
		case "bvor":
			return c.Lit(new(big.Int).Or(a.Val, b.Val), w)
		}
	}
	if op == "bvadd" || op == "bvor" || op == "bvxor" {
		if a.IsLit() && a.Val.Sign() == 0 {
			return b
		}
		if b.IsLit() && b.Val.Sign() == 0 {
			return a
		}
	}
	if op == "bvsub" && b.IsLit() && b.Val.Sign() == 0 {
		return a
	}
	if op == "bvmul" {
		// x * 1 = x (element index scaling by one slot): keeps index terms syntactically equal across axioms and goals
		if a.IsLit() && a.Val.Cmp(big.NewInt(1)) == 0 {
			return b
		}
		if b.IsLit() && b.Val.Cmp(big.NewInt(1)) == 0 {
			return a
		}
	}
	return c.mk(&Term{Op: op, Args: []*Term{a, b}, Sort: a.Sort})
}

func (c *Ctx) BVNot(a *Term) *Term { return c.mk(&Term{Op: "bvnot", Args: []*Term{a}, Sort: a.Sort}) }
func (c *Ctx) BVNeg(a *Term) *Term { return c.mk(&Term{Op: "bvneg", Args: []*Term{a}, Sort: a.Sort}) }

// BV comparison: bvult bvule bvugt bvuge bvslt bvsle bvsgt bvsge
func (c *Ctx) Cmp(op string, a, b *Term) *Term {
	if a.Sort != b.Sort {
		panic(fmt.Sprintf("%s sorts %s vs %s (%s / %s)", op, a.Sort, b.Sort, a.Short(), b.Short()))
	}
	if a.IsLit() && b.IsLit() && strings.HasPrefix(op, "bvu") {
		r := a.Val.Cmp(b.Val)
		switch op {
		case "bvult":
			return c.BoolLit(r < 0)
		case "bvule":
			return c.BoolLit(r <= 0)
		case "bvugt":
			return c.BoolLit(r > 0)
		case "bvuge":
			return c.BoolLit(r >= 0)
		}
	}
	return c.mk(&Term{Op: op, Args: []*Term{a, b}, Sort: Bool})
}

func (c *Ctx) Extract(hi, lo int, a *Term) *Term {
	if a.Sort.Kind != KBV || hi >= a.Sort.W || lo < 0 || hi < lo {
		panic(fmt.Sprintf("extract %d %d of %s", hi, lo, a.Sort))
	}
	if lo == 0 && hi == a.Sort.W-1 {
		return a
	}
	if a.IsLit() {
		v := new(big.Int).Rsh(a.Val, uint(lo))
		return c.Lit(v, hi-lo+1)
	}
	if a.Op == "extract" {
		return c.Extract(hi+a.P2, lo+a.P2, a.Args[0])
	}
	if a.Op == "concat" {
		// args are high..low
		off := 0
		for i := len(a.Args) - 1; i >= 0; i-- {
			w := a.Args[i].Sort.W
			if lo >= off && hi < off+w {
				return c.Extract(hi-off, lo-off, a.Args[i])
			}
			off += w
		}
	}
	if a.Op == "zext" {
		w := a.Args[0].Sort.W
		if hi < w {
			return c.Extract(hi, lo, a.Args[0])
		}
		if lo >= w {
			return c.LitU(0, hi-lo+1)
		}
	}
	if a.Op == "ite" && (a.Args[1].Op == "concat" || a.Args[1].IsLit() || a.Args[2].Op == "concat" || a.Args[2].IsLit()) {
		return c.Ite(a.Args[0], c.Extract(hi, lo, a.Args[1]), c.Extract(hi, lo, a.Args[2]))
	}
	return c.mk(&Term{Op: "extract", Args: []*Term{a}, P1: hi, P2: lo, Sort: BV(hi - lo + 1)})
}

// Concat: args high..low
func (c *Ctx) Concat(as ...*Term) *Term {
	var flat []*Term
	for _, a := range as {
		if a.Op == "concat" {
			flat = append(flat, a.Args...)
		} else {
			flat = append(flat, a)
		}
	}
	// merge adjacent extracts of the same term, and adjacent literals
	var out []*Term
	for _, a := range flat {
		if n := len(out); n > 0 {
			p := out[n-1]
			if p.Op == "extract" && a.Op == "extract" && p.Args[0] == a.Args[0] && p.P2 == a.P1+1 {
				out[n-1] = c.Extract(p.P1, a.P2, a.Args[0])
				continue
			}
			if p.IsLit() && a.IsLit() {
				v := new(big.Int).Lsh(p.Val, uint(a.Sort.W))
				v.Or(v, a.Val)
				out[n-1] = c.Lit(v, p.Sort.W+a.Sort.W)
				continue
			}
		}
		out = append(out, a)
	}
	if len(out) == 1 {
		return out[0]
	}
	w := 0
	for _, a := range out {
		w += a.Sort.W
	}
	return c.mk(&Term{Op: "concat", Args: out, Sort: BV(w)})
}

func (c *Ctx) ZExt(a *Term, to int) *Term {
	if a.Sort.W == to {
		return a
	}
	if a.Sort.W > to {
		return c.Extract(to-1, 0, a)
	}
	if a.IsLit() {
		return c.Lit(a.Val, to)
	}
	return c.mk(&Term{Op: "zext", Args: []*Term{a}, P1: to - a.Sort.W, Sort: BV(to)})
}

func (c *Ctx) SExt(a *Term, to int) *Term {
	if a.Sort.W == to {
		return a
	}
	if a.Sort.W > to {
		return c.Extract(to-1, 0, a)
	}
	if a.IsLit() {
		v := new(big.Int).Set(a.Val)
		if v.Bit(a.Sort.W-1) == 1 {
			v.Sub(v, new(big.Int).Lsh(big.NewInt(1), uint(a.Sort.W)))
		}
		return c.Lit(v, to)
	}
	return c.mk(&Term{Op: "sext", Args: []*Term{a}, P1: to - a.Sort.W, Sort: BV(to)})
}

func (c *Ctx) Select(arr, idx *Term) *Term {
	if arr.Sort.Kind != KArray || arr.Sort.Idx != idx.Sort {
		panic(fmt.Sprintf("select %s with %s (%s)", arr.Sort, idx.Sort, arr.Short()))
	}
	// read-over-write on syntactically equal / distinct-literal indices
	for arr.Op == "store" {
		if arr.Args[1] == idx {
			return arr.Args[2]
		}
		if arr.Args[1].IsLit() && idx.IsLit() {
			arr = arr.Args[0]
			continue
		}
		break
	}
	if arr.Op == "constarr" {
		return arr.Args[0]
	}
	if arr.Op == "ite" && !mentionsBound(idx) {
		// select(ite(g, A, B), i) = ite(g, select(A, i), select(B, i)): keeps array-valued ite (control-flow merges of
		// heaps) out of the queries; the solvers are far better at scalar ite
		return c.Ite(arr.Args[0], c.Select(arr.Args[1], idx), c.Select(arr.Args[2], idx))
	}
	return c.mk(&Term{Op: "select", Args: []*Term{arr, idx}, Sort: arr.Sort.Elem})
}

// mentionsBound: the (small) index term contains a quantifier-bound variable. Selects at bound indices are left on
// the array-valued ite: pushing them inside would destroy the select(A, x) instantiation patterns.
func mentionsBound(t *Term) bool {
	n := 0
	var rec func(t *Term) bool
	rec = func(t *Term) bool {
		n++
		if n > 64 {
			return true // large index term: be conservative, do not rewrite
		}
		if t.Op == "bound" {
			return true
		}
		for _, a := range t.Args {
			if rec(a) {
				return true
			}
		}
		return false
	}
	return rec(t)
}

func (c *Ctx) Store(arr, idx, v *Term) *Term {
	if arr.Sort.Kind != KArray || arr.Sort.Idx != idx.Sort || arr.Sort.Elem != v.Sort {
		panic(fmt.Sprintf("store %s with %s := %s", arr.Sort, idx.Sort, v.Sort))
	}
	return c.mk(&Term{Op: "store", Args: []*Term{arr, idx, v}, Sort: arr.Sort})
}

// ConstArray is the array of sort s mapping every index to z.
func (c *Ctx) ConstArray(s *Sort, z *Term) *Term {
	if s.Kind != KArray || s.Elem != z.Sort {
		panic("constarr sort")
	}
	return c.mk(&Term{Op: "constarr", Args: []*Term{z}, Sort: s})
}

// App applies an uninterpreted function (declared on first use).
func (c *Ctx) App(name string, ret *Sort, args ...*Term) *Term {
	fd, ok := c.Funs[name]
	if !ok {
		fd = &FunDecl{Name: name, Ret: ret}
		for _, a := range args {
			fd.Args = append(fd.Args, a.Sort)
		}
		c.Funs[name] = fd
	} else {
		if fd.Ret != ret || len(fd.Args) != len(args) {
			panic("app redeclared: " + name)
		}
		for i, a := range args {
			if fd.Args[i] != a.Sort {
				panic(fmt.Sprintf("app %s arg %d sort %s vs %s", name, i, fd.Args[i], a.Sort))
			}
		}
	}
	if len(args) == 0 {
		return c.Const("uf:"+name, ret)
	}
	return c.mk(&Term{Op: "app", Name: name, Args: args, Sort: ret})
}

func (c *Ctx) Forall(bound []*Term, body *Term) *Term {
	if body.IsTrue() {
		return body
	}
	if len(bound) == 0 {
		return body
	}
	t := c.mk(&Term{Op: "forall", Args: []*Term{body}, Bound: bound, Sort: Bool})
	// closed after binding? recompute hasBV conservatively: keep true if nested vars remain
	t.hasBV = freeBound(body, bound)
	return t
}

func (c *Ctx) Exists(bound []*Term, body *Term) *Term {
	if len(bound) == 0 {
		return body
	}
	t := c.mk(&Term{Op: "exists", Args: []*Term{body}, Bound: bound, Sort: Bool})
	t.hasBV = freeBound(body, bound)
	return t
}

func freeBound(body *Term, bound []*Term) bool {
	bs := map[int]bool{}
	for _, b := range bound {
		bs[b.ID] = true
	}
	seen := map[int]bool{}
	var walk func(t *Term, bs map[int]bool) bool
	walk = func(t *Term, bs map[int]bool) bool {
		if !t.hasBV {
			return false
		}
		if t.Op == "bound" {
			return !bs[t.ID]
		}
		if seen[t.ID] {
			return false
		}
		seen[t.ID] = true
		if t.Op == "forall" || t.Op == "exists" {
			nb := map[int]bool{}
			for k := range bs {
				nb[k] = true
			}
			for _, b := range t.Bound {
				nb[b.ID] = true
			}
			return walk(t.Args[0], nb)
		}
		for _, a := range t.Args {
			if walk(a, bs) {
				return true
			}
		}
		return false
	}
	return walk(body, bs)
}

// Subst replaces constants/bound vars by terms (by ID) throughout t.
func (c *Ctx) Subst(t *Term, m map[int]*Term) *Term {
	memo := map[int]*Term{}
	var rec func(t *Term) *Term
	rec = func(t *Term) *Term {
		if r, ok := m[t.ID]; ok {
			return r
		}
		if len(t.Args) == 0 {
			return t
		}
		if r, ok := memo[t.ID]; ok {
			return r
		}
		args := make([]*Term, len(t.Args))
		changed := false
		for i, a := range t.Args {
			args[i] = rec(a)
			if args[i] != a {
				changed = true
			}
		}
		var r *Term
		if !changed {
			r = t
		} else {
			r = c.Rebuild(t, args)
		}
		memo[t.ID] = r
		return r
	}
	return rec(t)
}

// Rebuild re-creates t with new args through the simplifying constructors.
func (c *Ctx) Rebuild(t *Term, args []*Term) *Term {
	switch t.Op {
	case "not":
		return c.Not(args[0])
	case "and":
		return c.And(args...)
	case "or":
		return c.Or(args...)
	case "=>":
		return c.Implies(args[0], args[1])
	case "ite":
		return c.Ite(args[0], args[1], args[2])
	case "=":
		return c.Eq(args[0], args[1])
	case "extract":
		return c.Extract(t.P1, t.P2, args[0])
	case "concat":
		return c.Concat(args...)
	case "zext":
		return c.ZExt(args[0], t.Sort.W)
	case "sext":
		return c.SExt(args[0], t.Sort.W)
	case "select":
		return c.Select(args[0], args[1])
	case "store":
		return c.Store(args[0], args[1], args[2])
	case "app":
		return c.mk(&Term{Op: "app", Name: t.Name, Args: args, Sort: t.Sort})
	case "constarr":
		return c.ConstArray(t.Sort, args[0])
	case "forall":
		return c.Forall(t.Bound, args[0])
	case "exists":
		return c.Exists(t.Bound, args[0])
	case "bvult", "bvule", "bvugt", "bvuge", "bvslt", "bvsle", "bvsgt", "bvsge":
		return c.Cmp(t.Op, args[0], args[1])
	case "bvnot":
		return c.BVNot(args[0])
	case "bvneg":
		return c.BVNeg(args[0])
	default:
		if len(args) == 2 && strings.HasPrefix(t.Op, "bv") {
			return c.BVOp(t.Op, args[0], args[1])
		}
		return c.mk(&Term{Op: t.Op, Name: t.Name, Args: args, Sort: t.Sort, P1: t.P1, P2: t.P2})
	}
}

func (t *Term) Short() string {
	s := t.String()
	if len(s) > 200 {
		return s[:200] + "..."
	}
	return s
}

// String prints the term fully inline (for messages; may be large).
func (t *Term) String() string {
	var sb strings.Builder
	printTerm(&sb, t, nil, 0)
	return sb.String()
}

func litStr(t *Term) string {
	w := t.Sort.W
	if w%4 == 0 {
		s := t.Val.Text(16)
		for len(s) < w/4 {
			s = "0" + s
		}
		return "#x" + s
	}
	s := t.Val.Text(2)
	for len(s) < w {
		s = "0" + s
	}
	return "#b" + s
}

func printTerm(sb *strings.Builder, t *Term, named map[int]string, depth int) {
	if named != nil {
		if n, ok := named[t.ID]; ok {
			sb.WriteString(n)
			return
		}
	}
	if depth > 5000 {
		panic("smt: term too deep to print")
	}
	switch t.Op {
	case "const":
		sb.WriteString(quote(t.Name))
	case "bound":
		sb.WriteString(quote(t.Name))
	case "lit":
		sb.WriteString(litStr(t))
	case "true", "false":
		sb.WriteString(t.Op)
	case "extract":
		fmt.Fprintf(sb, "((_ extract %d %d) ", t.P1, t.P2)
		printTerm(sb, t.Args[0], named, depth+1)
		sb.WriteByte(')')
	case "zext":
		fmt.Fprintf(sb, "((_ zero_extend %d) ", t.P1)
		printTerm(sb, t.Args[0], named, depth+1)
		sb.WriteByte(')')
	case "sext":
		fmt.Fprintf(sb, "((_ sign_extend %d) ", t.P1)
		printTerm(sb, t.Args[0], named, depth+1)
		sb.WriteByte(')')
	case "constarr":
		fmt.Fprintf(sb, "((as const %s) ", t.Sort)
		printTerm(sb, t.Args[0], named, depth+1)
		sb.WriteByte(')')
	case "app":
		sb.WriteByte('(')
		sb.WriteString(quote(t.Name))
		for _, a := range t.Args {
			sb.WriteByte(' ')
			printTerm(sb, a, named, depth+1)
		}
		sb.WriteByte(')')
	case "forall", "exists":
		sb.WriteByte('(')
		sb.WriteString(t.Op)
		sb.WriteString(" (")
		for _, b := range t.Bound {
			fmt.Fprintf(sb, "(%s %s)", quote(b.Name), b.Sort)
		}
		sb.WriteString(") ")
		printTerm(sb, t.Args[0], named, depth+1)
		sb.WriteByte(')')
	default:
		sb.WriteByte('(')
		sb.WriteString(t.Op)
		for _, a := range t.Args {
			sb.WriteByte(' ')
			printTerm(sb, a, named, depth+1)
		}
		sb.WriteByte(')')
	}
}

// Script renders a complete SMT-LIB script checking satisfiability of the
// conjunction of asserts. Shared closed sub-terms become define-funs.
// wantModel lists constants whose values should be printed after sat.
func (c *Ctx) Script(asserts []*Term, wantModel []*Term, logic string) string {
	// collect reachable nodes, count references
	refs := map[int]int{}
	height := map[int]int{}
	var order []*Term
	var visit func(t *Term)
	visit = func(t *Term) {
		refs[t.ID]++
		if refs[t.ID] > 1 {
			return
		}
		h := 0
		for _, a := range t.Args {
			visit(a)
			if height[a.ID]+1 > h {
				h = height[a.ID] + 1
			}
		}
		height[t.ID] = h
		order = append(order, t)
	}
	for _, a := range asserts {
		visit(a)
	}
	for _, a := range wantModel {
		visit(a)
	}
	var sb strings.Builder
	sb.WriteString("(set-option :produce-models true)\n")
	if logic == "" {
		logic = "ALL"
	}
	fmt.Fprintf(&sb, "(set-logic %s)\n", logic)
	// declarations
	funs := map[string]bool{}
	var constList []*Term
	for _, t := range order {
		if t.Op == "const" {
			constList = append(constList, t)
		}
		if t.Op == "app" {
			funs[t.Name] = true
		}
	}
	sort.Slice(constList, func(i, j int) bool { return constList[i].ID < constList[j].ID })
	for _, t := range constList {
		fmt.Fprintf(&sb, "(declare-const %s %s)\n", quote(t.Name), t.Sort)
	}
	var fnames []string
	for n := range funs {
		fnames = append(fnames, n)
	}
	sort.Strings(fnames)
	for _, n := range fnames {
		fd := c.Funs[n]
		var as []string
		for _, a := range fd.Args {
			as = append(as, a.String())
		}
		fmt.Fprintf(&sb, "(declare-fun %s (%s) %s)\n", quote(n), strings.Join(as, " "), fd.Ret)
	}
	// named shared closed subterms, in topological (post) order
	named := map[int]string{}
	for _, t := range order {
		if len(t.Args) == 0 || t.hasBV {
			continue
		}
		if refs[t.ID] > 1 || termSize(t) > 40 || height[t.ID]%12 == 0 {
			var b strings.Builder
			printTerm(&b, t, named, 0)
			name := fmt.Sprintf("$n%d", t.ID)
			fmt.Fprintf(&sb, "(define-fun %s () %s %s)\n", name, t.Sort, b.String())
			named[t.ID] = name
		}
	}
	for _, a := range asserts {
		var b strings.Builder
		printTerm(&b, a, named, 0)
		fmt.Fprintf(&sb, "(assert %s)\n", b.String())
	}
	sb.WriteString("(check-sat)\n")
	if len(wantModel) > 0 {
		sb.WriteString("(get-value (")
		for _, t := range wantModel {
			var b strings.Builder
			printTerm(&b, t, named, 0)
			sb.WriteString(b.String())
			sb.WriteByte(' ')
		}
		sb.WriteString("))\n")
	}
	return sb.String()
}

func termSize(t *Term) int {
	// cheap: number of direct args as proxy (avoid deep walk)
	n := 1
	for _, a := range t.Args {
		n += 1 + len(a.Args)
	}
	return n
}

// HasQuant reports whether any assert contains a quantifier or UF.
func HasQuant(ts []*Term) (quant bool, uf bool, arrays bool) {
	seen := map[int]bool{}
	var walk func(t *Term)
	walk = func(t *Term) {
		if seen[t.ID] {
			return
		}
		seen[t.ID] = true
		if t.Op == "forall" || t.Op == "exists" {
			quant = true
		}
		if t.Op == "app" {
			uf = true
		}
		if t.Sort.Kind == KArray {
			arrays = true
		}
		for _, a := range t.Args {
			walk(a)
		}
	}
	for _, t := range ts {
		walk(t)
	}
	return
}
