package smt

import (
	"bytes"
	"context"
	"fmt"
	"os"
	"os/exec"
	"path/filepath"
	"strings"
	"sync"
	"time"
)

type Result struct {
	Status string // "unsat", "sat", "unknown", "timeout", "error"
	Solver string
	Time   float64
	Output string            // raw solver output (truncated)
	Model  map[string]string // get-value pairs: printed term -> value
	Also   []string          // other solvers' outcomes, e.g. "z3:timeout"
}

type SolverSpec struct {
	Name string
	Args func(file string, timeoutS int) []string
	Bin  string
}

var Solvers = []SolverSpec{
	{Name: "z3-new", Bin: "z3-new", Args: func(f string, t int) []string { return []string{fmt.Sprintf("-T:%d", t), f} }},
	{Name: "cvc5", Bin: "cvc5", Args: func(f string, t int) []string {
		return []string{fmt.Sprintf("--tlimit=%d", t*1000), "--lang=smt2", f}
	}},
	{Name: "z3", Bin: "z3", Args: func(f string, t int) []string { return []string{fmt.Sprintf("-T:%d", t), f} }},
	// the same solver with other random seeds: quantified obligations are sensitive to the case-split order
	// (measured: one obligation 292 s with the default seed, 40 s with seed 2 or 3)
	{Name: "z3-new/seed2", Bin: "z3-new", Args: func(f string, t int) []string {
		return []string{fmt.Sprintf("-T:%d", t), "smt.random_seed=2", "sat.random_seed=2", f}
	}},
	{Name: "z3-new/seed3", Bin: "z3-new", Args: func(f string, t int) []string {
		return []string{fmt.Sprintf("-T:%d", t), "smt.random_seed=3", "sat.random_seed=3", f}
	}},
	// the new SAT-based core: decided in 14 s an obligation over many merged return paths (ite-heavy heap terms)
	// that the default core and cvc5 did not decide in 40 s
	{Name: "z3-new/euf", Bin: "z3-new", Args: func(f string, t int) []string {
		return []string{fmt.Sprintf("-T:%d", t), "sat.euf=true", f}
	}},
}

func runOne(ctx context.Context, sp SolverSpec, file string, timeoutS int) Result {
	start := time.Now()
	cctx, cancel := context.WithTimeout(ctx, time.Duration(timeoutS+2)*time.Second)
	defer cancel()
	cmd := exec.CommandContext(cctx, sp.Bin, sp.Args(file, timeoutS)...)
	var out bytes.Buffer
	cmd.Stdout = &out
	cmd.Stderr = &out
	_ = cmd.Run()
	el := time.Since(start).Seconds()
	o := out.String()
	first := strings.TrimSpace(o)
	if i := strings.IndexByte(first, '\n'); i >= 0 {
		first = strings.TrimSpace(first[:i])
	}
	r := Result{Solver: sp.Name, Time: el, Output: trunc(o, 6000)}
	switch {
	case first == "unsat":
		r.Status = "unsat"
	case first == "sat":
		r.Status = "sat"
		r.Model = parseValues(o)
	case first == "unknown":
		r.Status = "unknown"
	case first == "timeout" || strings.Contains(first, "timeout") || cctx.Err() != nil:
		r.Status = "timeout"
	default:
		if ctx.Err() != nil {
			r.Status = "cancelled"
		} else {
			r.Status = "error"
		}
	}
	return r
}

func trunc(s string, n int) string {
	if len(s) > n {
		return s[:n] + "...[truncated]"
	}
	return s
}

// parseValues parses "((term value) (term value) ...)" after the sat line.
func parseValues(out string) map[string]string {
	i := strings.Index(out, "\n")
	if i < 0 {
		return nil
	}
	s := strings.TrimSpace(out[i+1:])
	m := map[string]string{}
	if !strings.HasPrefix(s, "(") {
		return m
	}
	// tokenise s-expressions at depth 1 inside the outer list
	depth := 0
	start := -1
	var items []string
	inBar := false
	for j := 0; j < len(s); j++ {
		ch := s[j]
		if ch == '|' {
			inBar = !inBar
			continue
		}
		if inBar {
			continue
		}
		if ch == '(' {
			depth++
			if depth == 2 {
				start = j
			}
		} else if ch == ')' {
			if depth == 2 && start >= 0 {
				items = append(items, s[start:j+1])
				start = -1
			}
			depth--
			if depth == 0 {
				break
			}
		}
	}
	for _, it := range items {
		body := strings.TrimSpace(it[1 : len(it)-1])
		// split into two s-exprs: key and value
		k, v := splitTwo(body)
		m[strings.Join(strings.Fields(k), " ")] = strings.Join(strings.Fields(v), " ")
	}
	return m
}

func splitTwo(s string) (string, string) {
	depth := 0
	inBar := false
	for j := 0; j < len(s); j++ {
		ch := s[j]
		if ch == '|' {
			inBar = !inBar
		}
		if inBar {
			continue
		}
		if ch == '(' {
			depth++
		} else if ch == ')' {
			depth--
		}
		if depth == 0 && (ch == ' ' || ch == '\n' || ch == '\t') && j > 0 {
			return strings.TrimSpace(s[:j]), strings.TrimSpace(s[j+1:])
		}
		if depth == 0 && ch == ')' && j+1 < len(s) {
			return strings.TrimSpace(s[:j+1]), strings.TrimSpace(s[j+1:])
		}
	}
	return s, ""
}

var fileSeq struct {
	sync.Mutex
	n int
}

// Race writes the script into dir and races the solvers. The first definite
// answer (sat/unsat) wins. stagger: the first solver gets a head start.
// If confirm is true an unsat must be reproduced by a second solver.
func Race(dir, name, script string, timeoutS int, confirm bool) Result {
	fileSeq.Lock()
	fileSeq.n++
	n := fileSeq.n
	fileSeq.Unlock()
	file := filepath.Join(dir, fmt.Sprintf("%05d_%s.smt2", n, sanitizeFile(name)))
	if err := os.WriteFile(file, []byte(script), 0o644); err != nil {
		return Result{Status: "error", Output: err.Error()}
	}
	ctx, cancel := context.WithCancel(context.Background())
	defer cancel()
	type sr struct{ r Result }
	ch := make(chan Result, len(Solvers))
	launched := 0
	launch := func(sp SolverSpec) {
		launched++
		go func() { ch <- runOne(ctx, sp, file, timeoutS) }()
	}
	start := time.Now()
	launch(Solvers[0])
	var got []Result
	var winner *Result
	stagger := time.NewTimer(1500 * time.Millisecond)
	staggered := false
	confirms := 0
	for {
		select {
		case <-stagger.C:
			if !staggered {
				staggered = true
				for _, sp := range Solvers[1:] {
					launch(sp)
				}
			}
		case r := <-ch:
			got = append(got, r)
			if r.Status == "sat" || r.Status == "unsat" {
				if winner == nil {
					rr := r
					winner = &rr
				} else if winner.Status != r.Status {
					// solvers disagree: report as error, keep both outputs
					return Result{Status: "error", Solver: winner.Solver + "+" + r.Solver, Time: time.Since(start).Seconds(),
						Output: "SOLVER DISAGREEMENT: " + winner.Solver + "=" + winner.Status + " " + r.Solver + "=" + r.Status}
				} else {
					confirms++
				}
				if winner.Status == "sat" || !confirm || confirms >= 1 {
					goto done
				}
			}
			if !staggered {
				// first solver finished without a definite answer: start the others now
				staggered = true
				for _, sp := range Solvers[1:] {
					launch(sp)
				}
			}
			if len(got) == launched && staggered {
				goto done
			}
		}
	}
done:
	cancel()
	el := time.Since(start).Seconds()
	var also []string
	for _, g := range got {
		also = append(also, fmt.Sprintf("%s:%s:%.2fs", g.Solver, g.Status, g.Time))
	}
	if winner != nil {
		if confirm && winner.Status == "unsat" && confirms == 0 {
			winner.Also = append(also, "unconfirmed")
		} else {
			winner.Also = also
		}
		winner.Time = el
		if winner.Status == "unsat" {
			os.Remove(file)
		}
		return *winner
	}
	// no definite answer
	st := "unknown"
	allTO := true
	outs := ""
	for _, g := range got {
		if g.Status != "timeout" {
			allTO = false
		}
		outs += g.Solver + ": " + g.Status + " " + trunc(strings.TrimSpace(g.Output), 300) + "\n"
	}
	if allTO {
		st = "timeout"
	}
	return Result{Status: st, Solver: "all", Time: el, Output: outs, Also: also}
}

func sanitizeFile(s string) string {
	var sb strings.Builder
	for _, r := range s {
		if (r >= 'a' && r <= 'z') || (r >= 'A' && r <= 'Z') || (r >= '0' && r <= '9') || r == '_' || r == '-' || r == '.' {
			sb.WriteRune(r)
		} else {
			sb.WriteRune('_')
		}
	}
	out := sb.String()
	if len(out) > 120 {
		out = out[:120]
	}
	return out
}
