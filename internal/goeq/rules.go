package goeq

import (
	"crypto/sha256"
	"encoding/hex"
	"encoding/json"
	"fmt"
	"go/ast"
	"go/parser"
	"go/token"
	"os"
	"sort"
	"strings"
)

// Rule is one erasure / rewrite rule of /verif/eq/deltas.json.  Rules are
// applied to the /repo side only (sort_map_keys, which is a permutation, is
// applied to both sides of that one declaration).
type Rule struct {
	Kind string `json:"kind"`
	// delete_stmt / rewrite_stmt / take_else: "exact" (default) or "prefix"
	Match string `json:"match,omitempty"`
	// delete_stmt: statement text; rewrite_expr / rewrite_stmt: text to find
	Text string `json:"text,omitempty"`
	From string `json:"from,omitempty"`
	To   string `json:"to,omitempty"`
	// delete_key: printed key of a keyed composite-literal element
	Key string `json:"key,omitempty"`
	// delete_field: struct field name
	Field string `json:"field,omitempty"`
	// take_else: printed condition of the if statement
	Cond string `json:"cond,omitempty"`
	// replace_decl: sha256 of the normalised /repo text
	SHA256 string `json:"sha256,omitempty"`
	// exact number of matches required (0 = at least one)
	Count int    `json:"count,omitempty"`
	Why   string `json:"why"`
	// the unary obligation that justifies the erasure
	Ghost string `json:"ghost_obligation"`
}

// Delta is the entry for one declaration.
type Delta struct {
	Decl  string `json:"decl"` // e.g. "vm.(*EVM).Call"
	Why   string `json:"why"`
	Rules []Rule `json:"rules"`
}

// DeltaFile is /verif/eq/deltas.json.
type DeltaFile struct {
	Version   int      `json:"version"`
	Reference string   `json:"reference"`
	Doc       []string `json:"doc,omitempty"`
	Deltas    []Delta  `json:"deltas"`
}

func LoadDeltas(path string) (*DeltaFile, error) {
	b, err := os.ReadFile(path)
	if err != nil {
		return nil, err
	}
	var df DeltaFile
	dec := json.NewDecoder(strings.NewReader(string(b)))
	dec.DisallowUnknownFields()
	if err := dec.Decode(&df); err != nil {
		return nil, fmt.Errorf("%s: %w", path, err)
	}
	for _, d := range df.Deltas {
		for i, r := range d.Rules {
			if strings.TrimSpace(r.Ghost) == "" {
				return nil, fmt.Errorf("%s: %s rule #%d (%s) has no ghost_obligation", path, d.Decl, i, r.Kind)
			}
		}
	}
	return &df, nil
}

func (r *Rule) label(i int) string {
	switch r.Kind {
	case "delete_stmt":
		return fmt.Sprintf("#%d delete_stmt[%s] %q", i, r.matchKind(), abbreviate(r.Text))
	case "rewrite_stmt":
		return fmt.Sprintf("#%d rewrite_stmt[%s] %q -> %q", i, r.matchKind(), abbreviate(r.From), abbreviate(r.To))
	case "rewrite_expr":
		return fmt.Sprintf("#%d rewrite_expr %q -> %q", i, abbreviate(r.From), abbreviate(r.To))
	case "delete_key":
		return fmt.Sprintf("#%d delete_key %q", i, r.Key)
	case "delete_field":
		return fmt.Sprintf("#%d delete_field %q", i, r.Field)
	case "take_else":
		return fmt.Sprintf("#%d take_else if %q", i, abbreviate(r.Cond))
	case "unname_results":
		return fmt.Sprintf("#%d unname_results", i)
	case "sort_map_keys":
		return fmt.Sprintf("#%d sort_map_keys", i)
	case "replace_decl":
		return fmt.Sprintf("#%d replace_decl sha256=%s", i, r.SHA256)
	}
	return fmt.Sprintf("#%d %s", i, r.Kind)
}

func abbreviate(s string) string {
	s = squash(s)
	if len(s) > 90 {
		return s[:87] + "..."
	}
	return s
}

func (r *Rule) matchKind() string {
	if r.Match == "" {
		return "exact"
	}
	return r.Match
}

// canonStmt re-prints a rule text through the same printer as the code, so
// that hand-written spacing does not matter (exact rules only; a prefix is
// not parseable).
func canonStmt(src string) string {
	if st, err := parseStmts(src); err == nil && len(st) == 1 {
		return Print(st[0])
	}
	return src
}

func canonExpr(src string) string {
	if e, err := parser.ParseExpr(src); err == nil {
		return Print(e)
	}
	return src
}

func (r *Rule) matches(want, have string) bool {
	if r.matchKind() != "prefix" {
		want = canonStmt(want)
	}
	w, h := squash(want), squash(have)
	if r.matchKind() == "prefix" {
		return strings.HasPrefix(h, w)
	}
	return h == w
}

func parseStmts(src string) ([]ast.Stmt, error) {
	if strings.TrimSpace(src) == "" {
		return nil, nil
	}
	file := "package p\nfunc _() {\n" + src + "\n}\n"
	f, err := parser.ParseFile(token.NewFileSet(), "rule.go", file, parser.SkipObjectResolution)
	if err != nil {
		return nil, err
	}
	return f.Decls[0].(*ast.FuncDecl).Body.List, nil
}

func HashText(s string) string {
	h := sha256.Sum256([]byte(s))
	return hex.EncodeToString(h[:])
}

// sideEffectFree: literals, identifiers, selectors, &T{...} / T{...} of such,
// unary/binary operators over such.  Used by sort_map_keys.
func sideEffectFree(e ast.Expr) bool {
	switch x := e.(type) {
	case *ast.BasicLit, *ast.Ident:
		return true
	case *ast.SelectorExpr:
		return sideEffectFree(x.X)
	case *ast.ParenExpr:
		return sideEffectFree(x.X)
	case *ast.UnaryExpr:
		return x.Op != token.ARROW && sideEffectFree(x.X)
	case *ast.BinaryExpr:
		return sideEffectFree(x.X) && sideEffectFree(x.Y)
	case *ast.CompositeLit:
		for _, el := range x.Elts {
			if kv, ok := el.(*ast.KeyValueExpr); ok {
				if !sideEffectFree(kv.Value) {
					return false
				}
			} else if !sideEffectFree(el) {
				return false
			}
		}
		return true
	}
	return false
}

// sortMapLits sorts the keyed elements of every composite literal whose type
// is syntactically a map type, by printed key.  Returns (#literals sorted
// where the order changed, error if an element is not side-effect free).
func sortMapLits(n ast.Node) (changed int, err error) {
	rw := &rewriter{elts: func(cl *ast.CompositeLit) {
		if _, ok := cl.Type.(*ast.MapType); !ok {
			return
		}
		keys := make([]string, len(cl.Elts))
		for i, el := range cl.Elts {
			kv, ok := el.(*ast.KeyValueExpr)
			if !ok {
				err = fmt.Errorf("sort_map_keys: unkeyed element in map literal")
				return
			}
			if !sideEffectFree(kv.Key) || !sideEffectFree(kv.Value) {
				err = fmt.Errorf("sort_map_keys: element %s is not syntactically side-effect free", squash(Print(kv)))
				return
			}
			keys[i] = squash(Print(kv.Key))
		}
		idx := make([]int, len(keys))
		for i := range idx {
			idx[i] = i
		}
		sort.SliceStable(idx, func(a, b int) bool { return keys[idx[a]] < keys[idx[b]] })
		moved := false
		out := make([]ast.Expr, len(idx))
		for i, j := range idx {
			out[i] = cl.Elts[j]
			if i != j {
				moved = true
			}
		}
		cl.Elts = out
		if moved {
			changed++
		}
	}}
	rw.node(n)
	return
}

// hasBareReturn reports a `return` without results outside nested literals.
func hasBareReturn(body *ast.BlockStmt) bool {
	found := false
	ast.Inspect(body, func(n ast.Node) bool {
		switch s := n.(type) {
		case *ast.FuncLit:
			return false
		case *ast.ReturnStmt:
			if len(s.Results) == 0 {
				found = true
			}
		}
		return true
	})
	return found
}

// applyRule applies one rule to the /repo-side node and returns the number of
// places it was used.
func applyRule(r *Rule, node ast.Node) (int, error) {
	used := 0
	switch r.Kind {
	case "delete_stmt":
		if strings.TrimSpace(r.Text) == "" {
			return 0, fmt.Errorf("delete_stmt: empty text")
		}
		rw := &rewriter{stmts: func(list []ast.Stmt) []ast.Stmt {
			var out []ast.Stmt
			for _, s := range list {
				if r.matches(r.Text, Print(s)) {
					used++
					continue
				}
				out = append(out, s)
			}
			return out
		}}
		rw.node(node)
	case "rewrite_stmt":
		if _, err := parseStmts(r.To); err != nil {
			return 0, fmt.Errorf("rewrite_stmt: cannot parse `to`: %v", err)
		}
		rw := &rewriter{stmts: func(list []ast.Stmt) []ast.Stmt {
			var out []ast.Stmt
			for _, s := range list {
				if r.matches(r.From, Print(s)) {
					used++
					fresh, _ := parseStmts(r.To)
					out = append(out, fresh...)
					continue
				}
				out = append(out, s)
			}
			return out
		}}
		rw.node(node)
	case "take_else":
		rw := &rewriter{stmts: func(list []ast.Stmt) []ast.Stmt {
			var out []ast.Stmt
			for _, s := range list {
				if is, ok := s.(*ast.IfStmt); ok && is.Init == nil && is.Else != nil && squash(Print(is.Cond)) == squash(canonExpr(r.Cond)) {
					if blk, ok := is.Else.(*ast.BlockStmt); ok {
						used++
						out = append(out, blk.List...)
						continue
					}
				}
				out = append(out, s)
			}
			return out
		}}
		rw.node(node)
	case "rewrite_expr":
		if _, err := parser.ParseExpr(r.To); err != nil {
			return 0, fmt.Errorf("rewrite_expr: cannot parse `to`: %v", err)
		}
		fromExpr, err := parser.ParseExpr(r.From)
		if err != nil {
			return 0, fmt.Errorf("rewrite_expr: cannot parse `from`: %v", err)
		}
		// both sides are printed stand-alone, so operator spacing agrees
		from := squash(Print(fromExpr))
		rw := &rewriter{expr: func(e ast.Expr) ast.Expr {
			if squash(Print(e)) == from {
				used++
				ne, _ := parser.ParseExpr(r.To)
				return ne
			}
			return nil
		}}
		rw.node(node)
	case "delete_key":
		key := squash(canonExpr(r.Key))
		rw := &rewriter{elts: func(cl *ast.CompositeLit) {
			var out []ast.Expr
			for _, el := range cl.Elts {
				if kv, ok := el.(*ast.KeyValueExpr); ok && squash(Print(kv.Key)) == key {
					used++
					continue
				}
				out = append(out, el)
			}
			cl.Elts = out
		}}
		rw.node(node)
	case "delete_field":
		ast.Inspect(node, func(n ast.Node) bool {
			st, ok := n.(*ast.StructType)
			if !ok || st.Fields == nil {
				return true
			}
			var out []*ast.Field
			for _, f := range st.Fields.List {
				var keep []*ast.Ident
				hit := false
				for _, id := range f.Names {
					if id.Name == r.Field {
						used++
						hit = true
					} else {
						keep = append(keep, id)
					}
				}
				if hit && len(keep) == 0 {
					continue
				}
				f.Names = keep
				out = append(out, f)
			}
			st.Fields.List = out
			return true
		})
	case "unname_results":
		fd, ok := node.(*ast.FuncDecl)
		if !ok || fd.Type.Results == nil {
			return 0, fmt.Errorf("unname_results: not a function with results")
		}
		if fd.Body != nil && hasBareReturn(fd.Body) {
			return 0, fmt.Errorf("unname_results: function has a bare return; names are observable")
		}
		var out []*ast.Field
		for _, f := range fd.Type.Results.List {
			if len(f.Names) == 0 {
				out = append(out, f)
				continue
			}
			for range f.Names {
				used++
				out = append(out, &ast.Field{Type: f.Type})
			}
		}
		fd.Type.Results.List = out
	default:
		return 0, fmt.Errorf("unknown rule kind %q", r.Kind)
	}
	return used, nil
}
