package goeq

import (
	"go/ast"
	"sort"
	"strings"
)

var tracerHooks = map[string]bool{
	"CaptureStart": true, "CaptureEnd": true, "CaptureEnter": true, "CaptureExit": true,
	"CaptureState": true, "CaptureFault": true, "CaptureTxStart": true, "CaptureTxEnd": true,
}

var c02Files = map[string]bool{
	"gas.go": true, "gas_table.go": true, "operations_acl.go": true, "memory_table.go": true,
	"common.go": true, "jump_table.go": true,
}

var c02Frames = map[string]bool{
	"Call": true, "CallCode": true, "DelegateCall": true, "StaticCall": true,
	"create": true, "Create": true, "Create2": true,
}

var c02Instr = map[string]bool{
	"opCall": true, "opCallCode": true, "opDelegateCall": true, "opStaticCall": true,
	"opCreate": true, "opCreate2": true,
}

// PropertyGroups documents the tagging (printed into the JSON).
var PropertyGroups = map[string]string{
	"C01": "every paired declaration of vm, vm/runtime, core",
	"C02": "vm: all of gas.go, gas_table.go, operations_acl.go, memory_table.go, common.go, jump_table.go; contract.go UseGas; interpreter.go (*EVMInterpreter).Run; evm.go (*EVM).{Call,CallCode,DelegateCall,StaticCall,create,Create,Create2}; contracts.go RunPrecompiledContract and every RequiredGas; eips.go enable*/EnableEIP/activators; instructions.go opCall, opCallCode, opDelegateCall, opStaticCall, opCreate, opCreate2",
	"C15": "vm: eips.go enable1153, opTload, opTstore; all of interpreter.go",
	"C04": "vm: the frame functions Call, CallCode, DelegateCall, StaticCall, create, Create, Create2 and the call/create opcodes (they push 0 when the frame failed); interpreter Run",
	"C08": "vm: the frame functions and the call/create opcodes (what is handed to the call tree is what the program passed)",
	"C10": "vm: contract.go (Contract.Address, AsDelegate, NewContract) and the frame functions (which account reference a frame's contract gets)",
	"C13": "vm frame functions; core/evm.go (CanTransfer, Transfer)",
	"C19": "every paired declaration of tracers/native",
	"C20": "every paired function of vm: upstream instructions and precompiles inherit the reference gas/work schedule",
	"C18": "every paired declaration of tracers, tracers/logger, tracers/native; vm/logger.go; every vm function whose body calls an EVMLogger hook (CaptureStart/End/Enter/Exit/State/Fault/TxStart/TxEnd)",
}

func callsTracerHook(n ast.Node) bool {
	found := false
	ast.Inspect(n, func(x ast.Node) bool {
		if c, ok := x.(*ast.CallExpr); ok {
			if se, ok := c.Fun.(*ast.SelectorExpr); ok && tracerHooks[se.Sel.Name] {
				found = true
			}
		}
		return true
	})
	return found
}

// propsFor must be called before erasure rules mutate the node.
func propsFor(rel string, u *Unit) []string {
	set := map[string]bool{}
	switch rel {
	case "vm", "vm/runtime", "core":
		set["C01"] = true
	}
	if strings.HasPrefix(rel, "tracers") {
		set["C18"] = true
	}
	if rel == "vm" {
		f := u.File
		switch {
		case c02Files[f]:
			set["C02"] = true
		case f == "contract.go" && u.FuncName == "UseGas":
			set["C02"] = true
		case f == "interpreter.go" && u.Recv == "EVMInterpreter" && u.FuncName == "Run":
			set["C02"] = true
		case f == "interpreter.go" && u.FuncName == "NewEVMInterpreter":
			// selects the fork's instruction (and thereby gas) table and applies the extra EIPs
			set["C02"] = true
		case f == "evm.go" && u.Recv == "EVM" && c02Frames[u.FuncName]:
			set["C02"] = true
		case f == "contracts.go" && (u.FuncName == "RunPrecompiledContract" || u.FuncName == "RequiredGas"):
			set["C02"] = true
		case f == "eips.go" && (strings.HasPrefix(u.FuncName, "enable") || u.FuncName == "EnableEIP" || u.Key == "activators"):
			set["C02"] = true
		case f == "instructions.go" && c02Instr[u.FuncName]:
			set["C02"] = true
		}
		if f == "interpreter.go" {
			set["C15"] = true
		}
		if f == "eips.go" && (u.FuncName == "enable1153" || u.FuncName == "opTload" || u.FuncName == "opTstore") {
			set["C15"] = true
		}
		if f == "logger.go" {
			set["C18"] = true
		}
		if u.FuncName != "" && callsTracerHook(u.Node) {
			set["C18"] = true
		}
	}
	// properties whose contracts lean on upstream-identical code: that code is tied to the reference by EQ
	if rel == "vm" {
		f := u.File
		if f == "evm.go" && u.Recv == "EVM" && c02Frames[u.FuncName] {
			set["C04"], set["C08"], set["C10"], set["C13"] = true, true, true, true
		}
		if f == "instructions.go" && c02Instr[u.FuncName] {
			set["C04"], set["C08"] = true, true
		}
		if f == "contract.go" {
			set["C10"] = true
		}
		if f == "interpreter.go" && u.Recv == "EVMInterpreter" && u.FuncName == "Run" {
			set["C03"], set["C04"], set["C07"] = true, true, true
		}
		if u.FuncName != "" {
			set["C20"] = true
		}
	}
	if rel == "core" {
		set["C13"] = true
	}
	if rel == "tracers/native" {
		set["C19"] = true
	}
	var out []string
	for k := range set {
		out = append(out, k)
	}
	sort.Strings(out)
	return out
}
