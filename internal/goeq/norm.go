// Package goeq implements E2: the relational obligation EQ(d) between every
// top-level declaration d of /repo and the declaration of the same name in
// go-ethereum v1.12.0.  Only the Go standard library is used.
package goeq

import (
	"bytes"
	"fmt"
	"go/ast"
	"go/parser"
	"go/printer"
	"go/token"
	"reflect"
	"strconv"
	"strings"
)

// NormalisationRules is printed verbatim into the JSON output: it is the
// complete list of differences that "reflexivity" ignores.
var NormalisationRules = []string{
	"N1a ctx-params: in every function declaration, function literal and function type (incl. interface methods) a parameter is dropped iff its type is the selector `context.Context` and it is either named exactly `ctx` or unnamed; no other parameter is touched (e.g. `ctx *tracers.Context` stays).",
	"N1b ctx-args: a call argument is dropped iff it is the bare identifier `ctx` and the innermost enclosing function/literal that binds `ctx` as a parameter binds it as `ctx context.Context` (dropped by N1a). If the function (re)declares `ctx` by :=, var, range or a non-context parameter, nothing is dropped in that scope.",
	"N2a import-path map (applied to the /repo side only): github.com/artela-network/artela-evm/{vm, vm/runtime, core, tracers, tracers/logger, tracers/native} -> github.com/ethereum/go-ethereum/{core/vm, core/vm/runtime, core, eth/tracers, eth/tracers/logger, eth/tracers/native}.",
	"N2b qualifiers: a selector `q.X` whose `q` is an import name of the file (and `q` is not redeclared as a local in the enclosing declaration) is rewritten to `<canon>.X` where <canon> is the last element of the mapped import path, except for the listed overrides: github.com/artela-network/aspect-core/types -> `aspecttypes`. Local import aliases are thereby resolved (e.g. `coretypes.` -> `aspecttypes.`).",
	"N2c self-qualifier: if the mapped import path equals the upstream path of the package being compared, the qualifier is dropped: in /repo/vm `ethvm.ContractRef` (alias import of go-ethereum/core/vm) == upstream `ContractRef`; in /repo/core `ethcore.Message` == upstream `Message`.",
	"N3 short-var-decl: inside function bodies a declaration statement `var x = e` (one spec, no type, as many values as names or one value) is rewritten to `x := e`.",
	"N4 layout: comments (incl. doc comments and //nolint), blank lines, line breaks and gofmt spacing are ignored: every declaration is printed by go/printer from a comment-free AST with an empty FileSet (no position information). Grouping is ignored: each name of a `var (...)`, `const (...)`, `type (...)` group is its own declaration; a const is compared in its effective form (implicit repetition of the previous type/expression expanded, iota value recorded as /*iota=N*/).",
	"N5 alpha-renaming (fallback, functions only, used only when the texts still differ after N1-N4 and erasure): parameters, results, receivers and local variables (declared by :=, var, range, type-switch) are renamed to $1,$2,... in order of declaration; a variable that is also used as a bare composite-literal key is not renamed; labels, fields, methods and package-level names are never renamed. An obligation discharged this way lists `N5` in rules_used.",
	"N6 pairing: declarations are paired by package + (receiver base type) + name, independent of file; `init` functions are paired by file name + ordinal; _test.go files and files whose build constraint mentions `verif` are ignored; imports are not compared (an unused or missing import does not compile).",
}

// PkgPair describes one paired package.
type PkgPair struct {
	Rel          string // path relative to /repo root, e.g. "vm/runtime"
	RepoImport   string
	UpImport     string
	UpRel        string // path relative to upstream module root
	SameNameOnly bool   // consider only upstream files whose name exists in /repo's package
}

const (
	repoMod = "github.com/artela-network/artela-evm"
	upMod   = "github.com/ethereum/go-ethereum"
)

// Pairs is the fixed list of paired packages.
var Pairs = []PkgPair{
	{"vm", repoMod + "/vm", upMod + "/core/vm", "core/vm", false},
	{"vm/runtime", repoMod + "/vm/runtime", upMod + "/core/vm/runtime", "core/vm/runtime", false},
	{"core", repoMod + "/core", upMod + "/core", "core", true},
	{"tracers", repoMod + "/tracers", upMod + "/eth/tracers", "eth/tracers", true},
	{"tracers/logger", repoMod + "/tracers/logger", upMod + "/eth/tracers/logger", "eth/tracers/logger", false},
	{"tracers/native", repoMod + "/tracers/native", upMod + "/eth/tracers/native", "eth/tracers/native", false},
}

var pathMap = func() map[string]string {
	m := map[string]string{}
	for _, p := range Pairs {
		m[p.RepoImport] = p.UpImport
	}
	return m
}()

// canonOverride lists the canonical qualifier names that are not simply the
// last path element.
var canonOverride = map[string]string{
	"github.com/artela-network/aspect-core/types": "aspecttypes",
}

func canonQualifier(path string) string {
	if c, ok := canonOverride[path]; ok {
		return c
	}
	parts := strings.Split(path, "/")
	last := parts[len(parts)-1]
	// .../v2 style suffix
	if len(parts) > 1 && len(last) > 1 && last[0] == 'v' {
		if _, err := strconv.Atoi(last[1:]); err == nil {
			last = parts[len(parts)-2]
		}
	}
	last = strings.TrimPrefix(last, "go-")
	last = strings.ReplaceAll(last, "-", "_")
	last = strings.ReplaceAll(last, ".", "_")
	return last
}

// ---------------------------------------------------------------------------
// printing

var emptyFset = token.NewFileSet()

var pcfg = printer.Config{Mode: printer.UseSpaces | printer.TabIndent, Tabwidth: 8}

// Print renders a node without any position information.
func Print(n any) string {
	var buf bytes.Buffer
	if err := pcfg.Fprint(&buf, emptyFset, n); err != nil {
		return fmt.Sprintf("<<print error: %v>>", err)
	}
	return buf.String()
}

// squash collapses every run of white space into one blank; used only to match
// rule texts against statement texts.
func squash(s string) string {
	return strings.Join(strings.Fields(s), " ")
}

// ---------------------------------------------------------------------------
// generic reflective rewriter (post-order), in the style of gofmt -r.

var (
	exprType     = reflect.TypeOf((*ast.Expr)(nil)).Elem()
	stmtType     = reflect.TypeOf((*ast.Stmt)(nil)).Elem()
	stmtListType = reflect.TypeOf([]ast.Stmt(nil))
	exprListType = reflect.TypeOf([]ast.Expr(nil))
	objPtrType   = reflect.TypeOf((*ast.Object)(nil))
	scopePtrType = reflect.TypeOf((*ast.Scope)(nil))
)

type rewriter struct {
	expr  func(ast.Expr) ast.Expr     // may be nil
	stmts func([]ast.Stmt) []ast.Stmt // called on every statement list after its elements were rewritten; may be nil
	elts  func(*ast.CompositeLit)     // called after children; may be nil
}

func (r *rewriter) node(n ast.Node) {
	if n == nil || reflect.ValueOf(n).IsNil() {
		return
	}
	r.walk(reflect.ValueOf(n))
}

func (r *rewriter) walk(v reflect.Value) {
	if !v.IsValid() {
		return
	}
	switch v.Kind() {
	case reflect.Ptr:
		if v.IsNil() || v.Type() == objPtrType || v.Type() == scopePtrType {
			return
		}
		r.walk(v.Elem())
		if cl, ok := v.Interface().(*ast.CompositeLit); ok && r.elts != nil {
			r.elts(cl)
		}
	case reflect.Interface:
		if v.IsNil() {
			return
		}
		r.walk(v.Elem())
		if r.expr != nil && v.Type() == exprType && v.CanSet() {
			if ne := r.expr(v.Interface().(ast.Expr)); ne != nil {
				v.Set(reflect.ValueOf(ne))
			}
		}
	case reflect.Slice:
		for i := 0; i < v.Len(); i++ {
			r.walk(v.Index(i))
		}
		if r.stmts != nil && v.Type() == stmtListType && v.CanSet() {
			old := v.Interface().([]ast.Stmt)
			v.Set(reflect.ValueOf(r.stmts(old)))
		}
	case reflect.Struct:
		for i := 0; i < v.NumField(); i++ {
			r.walk(v.Field(i))
		}
	}
}

// ---------------------------------------------------------------------------
// file-level normalisation N1..N3

type side int

const (
	sideRepo side = iota
	sideUp
)

func isCtxType(e ast.Expr) bool {
	se, ok := e.(*ast.SelectorExpr)
	if !ok {
		return false
	}
	x, ok := se.X.(*ast.Ident)
	return ok && x.Name == "context" && se.Sel.Name == "Context"
}

// stripCtxParams removes `ctx context.Context` (or an unnamed context.Context)
// from a parameter list.  It reports what the list says about the name ctx:
// +1 bound as context.Context (dropped), -1 bound as something else, 0 unbound.
func stripCtxParams(ft *ast.FuncType) int {
	if ft == nil || ft.Params == nil {
		return 0
	}
	state := 0
	var out []*ast.Field
	for _, f := range ft.Params.List {
		if isCtxType(f.Type) {
			if len(f.Names) == 0 {
				continue // unnamed context.Context
			}
			var keep []*ast.Ident
			for _, n := range f.Names {
				if n.Name == "ctx" {
					state = 1
				} else {
					keep = append(keep, n)
				}
			}
			if len(keep) == 0 {
				continue
			}
			f.Names = keep
			out = append(out, f)
			continue
		}
		for _, n := range f.Names {
			if n.Name == "ctx" {
				state = -1
			}
		}
		out = append(out, f)
	}
	ft.Params.List = out
	return state
}

// redeclaresCtx reports whether body declares an identifier ctx other than as
// a parameter (:=, var, range, type switch).  Conservative and syntactic.
func redeclaresCtx(body *ast.BlockStmt) bool {
	if body == nil {
		return false
	}
	found := false
	ast.Inspect(body, func(n ast.Node) bool {
		switch s := n.(type) {
		case *ast.FuncLit:
			return false // handled by its own frame
		case *ast.AssignStmt:
			if s.Tok == token.DEFINE {
				for _, l := range s.Lhs {
					if id, ok := l.(*ast.Ident); ok && id.Name == "ctx" {
						found = true
					}
				}
			}
		case *ast.RangeStmt:
			if s.Tok == token.DEFINE {
				for _, l := range []ast.Expr{s.Key, s.Value} {
					if id, ok := l.(*ast.Ident); ok && id.Name == "ctx" {
						found = true
					}
				}
			}
		case *ast.ValueSpec:
			for _, id := range s.Names {
				if id.Name == "ctx" {
					found = true
				}
			}
		}
		return true
	})
	return found
}

// normCtx implements N1a/N1b on a whole file.
func normCtx(f *ast.File) {
	// frames: state of the name ctx per enclosing function
	var stack []ast.Node
	var frames []int
	cur := func() int {
		for i := len(frames) - 1; i >= 0; i-- {
			if frames[i] != 0 {
				return frames[i]
			}
		}
		return 0
	}
	handled := map[*ast.FuncType]bool{}
	var visit func(n ast.Node) bool
	visit = func(n ast.Node) bool {
		if n == nil {
			top := stack[len(stack)-1]
			stack = stack[:len(stack)-1]
			switch top.(type) {
			case *ast.FuncDecl, *ast.FuncLit:
				frames = frames[:len(frames)-1]
			}
			return true
		}
		stack = append(stack, n)
		switch x := n.(type) {
		case *ast.FuncDecl:
			st := stripCtxParams(x.Type)
			handled[x.Type] = true
			if st == 1 && redeclaresCtx(x.Body) {
				st = -1
			}
			frames = append(frames, st)
		case *ast.FuncLit:
			st := stripCtxParams(x.Type)
			handled[x.Type] = true
			if st == 1 && redeclaresCtx(x.Body) {
				st = -1
			}
			frames = append(frames, st)
		case *ast.FuncType:
			if !handled[x] {
				stripCtxParams(x)
				handled[x] = true
			}
		case *ast.CallExpr:
			if cur() == 1 {
				var args []ast.Expr
				for _, a := range x.Args {
					if id, ok := a.(*ast.Ident); ok && id.Name == "ctx" {
						continue
					}
					args = append(args, a)
				}
				x.Args = args
			}
		}
		return true
	}
	ast.Inspect(f, visit)
}

// importTable returns import-name -> import path for a file.
func importTable(f *ast.File) map[string]string {
	m := map[string]string{}
	for _, im := range f.Imports {
		p, err := strconv.Unquote(im.Path.Value)
		if err != nil {
			continue
		}
		name := ""
		if im.Name != nil {
			name = im.Name.Name
			if name == "_" || name == "." {
				continue
			}
		} else {
			name = defaultImportName(p)
		}
		m[name] = p
	}
	return m
}

func defaultImportName(p string) string {
	parts := strings.Split(p, "/")
	last := parts[len(parts)-1]
	if len(parts) > 1 && len(last) > 1 && last[0] == 'v' {
		if _, err := strconv.Atoi(last[1:]); err == nil {
			last = parts[len(parts)-2]
		}
	}
	// known packages whose name differs from the last path element
	switch p {
	case "github.com/holiman/uint256":
		return "uint256"
	}
	last = strings.TrimPrefix(last, "go-")
	return last
}

// localNames collects identifiers declared inside a declaration (params,
// :=, var, range) so that N2b does not mistake a local for an import name.
func localNames(d ast.Node) map[string]bool {
	m := map[string]bool{}
	ast.Inspect(d, func(n ast.Node) bool {
		switch s := n.(type) {
		case *ast.FuncType:
			for _, fl := range []*ast.FieldList{s.Params, s.Results} {
				if fl == nil {
					continue
				}
				for _, f := range fl.List {
					for _, id := range f.Names {
						m[id.Name] = true
					}
				}
			}
		case *ast.FuncDecl:
			if s.Recv != nil {
				for _, f := range s.Recv.List {
					for _, id := range f.Names {
						m[id.Name] = true
					}
				}
			}
		case *ast.AssignStmt:
			if s.Tok == token.DEFINE {
				for _, l := range s.Lhs {
					if id, ok := l.(*ast.Ident); ok {
						m[id.Name] = true
					}
				}
			}
		case *ast.RangeStmt:
			if s.Tok == token.DEFINE {
				for _, l := range []ast.Expr{s.Key, s.Value} {
					if id, ok := l.(*ast.Ident); ok {
						m[id.Name] = true
					}
				}
			}
		case *ast.DeclStmt:
			if gd, ok := s.Decl.(*ast.GenDecl); ok {
				for _, sp := range gd.Specs {
					if vs, ok := sp.(*ast.ValueSpec); ok {
						for _, id := range vs.Names {
							m[id.Name] = true
						}
					}
				}
			}
		}
		return true
	})
	return m
}

// normQualifiers implements N2 on one top-level declaration.
func normQualifiers(d ast.Decl, imports map[string]string, sd side, selfUpPath string) {
	locals := map[string]bool{}
	if fd, ok := d.(*ast.FuncDecl); ok {
		locals = localNames(fd)
	}
	rw := &rewriter{expr: func(e ast.Expr) ast.Expr {
		se, ok := e.(*ast.SelectorExpr)
		if !ok {
			return nil
		}
		x, ok := se.X.(*ast.Ident)
		if !ok || locals[x.Name] {
			return nil
		}
		p, ok := imports[x.Name]
		if !ok {
			return nil
		}
		if sd == sideRepo {
			if mp, ok := pathMap[p]; ok {
				p = mp
			}
		}
		if p == selfUpPath {
			return se.Sel
		}
		x.Name = canonQualifier(p)
		return nil
	}}
	rw.node(d)
}

// normShortVar implements N3 on one declaration.
func normShortVar(d ast.Decl) {
	rw := &rewriter{stmts: func(list []ast.Stmt) []ast.Stmt {
		for i, s := range list {
			ds, ok := s.(*ast.DeclStmt)
			if !ok {
				continue
			}
			gd, ok := ds.Decl.(*ast.GenDecl)
			if !ok || gd.Tok != token.VAR || len(gd.Specs) != 1 {
				continue
			}
			vs := gd.Specs[0].(*ast.ValueSpec)
			if vs.Type != nil || len(vs.Values) == 0 {
				continue
			}
			if len(vs.Values) != len(vs.Names) && len(vs.Values) != 1 {
				continue
			}
			blank := true
			for _, n := range vs.Names {
				if n.Name != "_" {
					blank = false
				}
			}
			if blank {
				continue
			}
			lhs := make([]ast.Expr, len(vs.Names))
			for j, n := range vs.Names {
				lhs[j] = n
			}
			list[i] = &ast.AssignStmt{Lhs: lhs, Tok: token.DEFINE, Rhs: vs.Values}
		}
		return list
	}}
	rw.node(d)
}

// parseFile parses without comments and without object resolution.
func parseFile(fset *token.FileSet, path string, src []byte) (*ast.File, error) {
	return parser.ParseFile(fset, path, src, parser.SkipObjectResolution)
}
