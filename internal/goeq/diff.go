package goeq

import (
	"fmt"
	"strings"
)

// displayLines splits canonical text into lines and further breaks very long
// lines (one-line composite literals) at ", " so that a diff is readable.
// Display only; equality is always decided on the canonical text.
func displayLines(s string) []string {
	var out []string
	for _, ln := range strings.Split(strings.TrimRight(s, "\n"), "\n") {
		if len(ln) <= 160 {
			out = append(out, ln)
			continue
		}
		indent := ln[:len(ln)-len(strings.TrimLeft(ln, "\t "))]
		depth, start, inStr := 0, 0, byte(0)
		for i := 0; i < len(ln); i++ {
			c := ln[i]
			if inStr != 0 {
				if c == '\\' && inStr != '`' {
					i++
				} else if c == inStr {
					inStr = 0
				}
				continue
			}
			switch c {
			case '"', '`', '\'':
				inStr = c
			case '{', '(', '[':
				depth++
			case '}', ')', ']':
				depth--
			case ',':
				if i+1 < len(ln) && ln[i+1] == ' ' && depth >= 0 {
					seg := ln[start : i+1]
					if start > 0 {
						seg = indent + "\t" + strings.TrimLeft(seg, " ")
					}
					out = append(out, seg)
					start = i + 1
				}
			}
		}
		seg := ln[start:]
		if start > 0 {
			seg = indent + "\t" + strings.TrimLeft(seg, " ")
		}
		out = append(out, seg)
	}
	return out
}

// UnifiedDiff returns a unified diff (3 lines of context) of a -> b.
func UnifiedDiff(aName, bName, a, b string) string {
	x, y := displayLines(a), displayLines(b)
	n, m := len(x), len(y)
	// LCS table
	lcs := make([][]int32, n+1)
	for i := range lcs {
		lcs[i] = make([]int32, m+1)
	}
	for i := n - 1; i >= 0; i-- {
		for j := m - 1; j >= 0; j-- {
			if x[i] == y[j] {
				lcs[i][j] = lcs[i+1][j+1] + 1
			} else if lcs[i+1][j] >= lcs[i][j+1] {
				lcs[i][j] = lcs[i+1][j]
			} else {
				lcs[i][j] = lcs[i][j+1]
			}
		}
	}
	type op struct {
		k    byte
		s    string
		i, j int
	}
	var ops []op
	i, j := 0, 0
	for i < n && j < m {
		switch {
		case x[i] == y[j]:
			ops = append(ops, op{' ', x[i], i, j})
			i++
			j++
		case lcs[i+1][j] >= lcs[i][j+1]:
			ops = append(ops, op{'-', x[i], i, j})
			i++
		default:
			ops = append(ops, op{'+', y[j], i, j})
			j++
		}
	}
	for ; i < n; i++ {
		ops = append(ops, op{'-', x[i], i, j})
	}
	for ; j < m; j++ {
		ops = append(ops, op{'+', y[j], i, j})
	}
	var sb strings.Builder
	fmt.Fprintf(&sb, "--- %s\n+++ %s\n", aName, bName)
	const ctx = 3
	k := 0
	for k < len(ops) {
		if ops[k].k == ' ' {
			k++
			continue
		}
		start := k - ctx
		if start < 0 {
			start = 0
		}
		end := k
		last := k
		for end < len(ops) {
			if ops[end].k != ' ' {
				last = end
			} else if end-last > 2*ctx {
				break
			}
			end++
		}
		stop := last + ctx + 1
		if stop > len(ops) {
			stop = len(ops)
		}
		na, nb := 0, 0
		for _, o := range ops[start:stop] {
			if o.k != '+' {
				na++
			}
			if o.k != '-' {
				nb++
			}
		}
		fmt.Fprintf(&sb, "@@ -%d,%d +%d,%d @@\n", ops[start].i+1, na, ops[start].j+1, nb)
		for _, o := range ops[start:stop] {
			sb.WriteByte(o.k)
			sb.WriteString(o.s)
			sb.WriteByte('\n')
		}
		k = stop
	}
	return sb.String()
}
