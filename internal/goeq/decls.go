package goeq

import (
	"bufio"
	"bytes"
	"fmt"
	"go/ast"
	"go/build/constraint"
	"go/token"
	"os"
	"path/filepath"
	"sort"
	"strings"
)

// Unit is one top-level declaration in comparable form.
type Unit struct {
	Key      string   // pairing key inside the package, e.g. "(EVM).Call", "opAdd", "init@evm.go#0"
	Name     string   // display name with the side's own receiver form, e.g. "(*EVM).Call"
	Kind     string   // func | method | var | const | type | init
	File     string   // base file name
	Node     ast.Node // *ast.FuncDecl or *ast.GenDecl holding exactly one spec
	Suffix   string   // extra text appended after the printed node (iota annotation)
	FuncName string   // bare function/method name ("" for others)
	Recv     string   // receiver base type name
}

// Text prints the unit in canonical form.
func (u *Unit) Text() string {
	return strings.TrimRight(Print(u.Node), "\n") + u.Suffix + "\n"
}

// Package is the set of units of one side of a package pair.
type Package struct {
	Dir   string
	Files []string
	Units map[string]*Unit
	Order []string
}

func hasVerifConstraint(src []byte) bool {
	sc := bufio.NewScanner(bytes.NewReader(src))
	sc.Buffer(make([]byte, 1<<20), 1<<20)
	for sc.Scan() {
		line := strings.TrimSpace(sc.Text())
		if strings.HasPrefix(line, "package ") {
			return false
		}
		if constraint.IsGoBuild(line) || constraint.IsPlusBuild(line) {
			if x, err := constraint.Parse(line); err == nil {
				found := false
				x.Eval(func(tag string) bool {
					if strings.Contains(tag, "verif") {
						found = true
					}
					return false
				})
				if found {
					return true
				}
			} else if strings.Contains(line, "verif") {
				return true
			}
		}
	}
	return false
}

func recvBase(e ast.Expr) (base string, ptr bool) {
	for {
		switch x := e.(type) {
		case *ast.StarExpr:
			ptr = true
			e = x.X
		case *ast.ParenExpr:
			e = x.X
		case *ast.IndexExpr:
			e = x.X
		case *ast.IndexListExpr:
			e = x.X
		case *ast.Ident:
			return x.Name, ptr
		default:
			return Print(e), ptr
		}
	}
}

func mentionsIota(e ast.Expr) bool {
	found := false
	ast.Inspect(e, func(n ast.Node) bool {
		if id, ok := n.(*ast.Ident); ok && id.Name == "iota" {
			found = true
		}
		return true
	})
	return found
}

// LoadPackage parses every eligible file of dir, normalises it (N1-N3) and
// splits it into units.  only, when non-nil, restricts to those base names.
func LoadPackage(dir string, sd side, selfUpPath string, only map[string]bool) (*Package, error) {
	ents, err := os.ReadDir(dir)
	if err != nil {
		return nil, err
	}
	pkg := &Package{Dir: dir, Units: map[string]*Unit{}}
	var names []string
	for _, e := range ents {
		n := e.Name()
		if e.IsDir() || !strings.HasSuffix(n, ".go") || strings.HasSuffix(n, "_test.go") {
			continue
		}
		if only != nil && !only[n] {
			continue
		}
		names = append(names, n)
	}
	sort.Strings(names)
	fset := token.NewFileSet()
	for _, n := range names {
		path := filepath.Join(dir, n)
		src, err := os.ReadFile(path)
		if err != nil {
			return nil, err
		}
		if hasVerifConstraint(src) {
			continue
		}
		f, err := parseFile(fset, path, src)
		if err != nil {
			return nil, fmt.Errorf("parse %s: %w", path, err)
		}
		pkg.Files = append(pkg.Files, n)
		normCtx(f)
		imports := importTable(f)
		inits := 0
		add := func(u *Unit) {
			u.File = n
			if _, dup := pkg.Units[u.Key]; dup {
				// cannot happen in compiling code; keep both visible
				u.Key += "#dup@" + n
			}
			pkg.Units[u.Key] = u
			pkg.Order = append(pkg.Order, u.Key)
		}
		for _, d := range f.Decls {
			normQualifiers(d, imports, sd, selfUpPath)
			normShortVar(d)
			switch x := d.(type) {
			case *ast.FuncDecl:
				x.Doc = nil
				if x.Recv == nil && x.Name.Name == "init" {
					add(&Unit{Key: fmt.Sprintf("init@%s#%d", n, inits), Name: fmt.Sprintf("init@%s#%d", n, inits), Kind: "init", Node: x, FuncName: "init"})
					inits++
					continue
				}
				if x.Recv != nil && len(x.Recv.List) == 1 {
					base, ptr := recvBase(x.Recv.List[0].Type)
					disp := "(" + base + ")." + x.Name.Name
					if ptr {
						disp = "(*" + base + ")." + x.Name.Name
					}
					add(&Unit{Key: "(" + base + ")." + x.Name.Name, Name: disp, Kind: "method", Node: x, FuncName: x.Name.Name, Recv: base})
					continue
				}
				add(&Unit{Key: x.Name.Name, Name: x.Name.Name, Kind: "func", Node: x, FuncName: x.Name.Name})
			case *ast.GenDecl:
				switch x.Tok {
				case token.IMPORT:
					continue
				case token.TYPE:
					for _, sp := range x.Specs {
						ts := sp.(*ast.TypeSpec)
						ts.Doc, ts.Comment = nil, nil
						add(&Unit{Key: ts.Name.Name, Name: ts.Name.Name, Kind: "type",
							Node: &ast.GenDecl{Tok: token.TYPE, Specs: []ast.Spec{ts}}})
					}
				case token.VAR:
					for _, sp := range x.Specs {
						vs := sp.(*ast.ValueSpec)
						for i, id := range vs.Names {
							if id.Name == "_" {
								// `var _ T = v` assertions: key by printed text
								one := &ast.ValueSpec{Names: []*ast.Ident{id}, Type: vs.Type}
								if len(vs.Values) == len(vs.Names) {
									one.Values = []ast.Expr{vs.Values[i]}
								} else {
									one.Values = vs.Values
								}
								g := &ast.GenDecl{Tok: token.VAR, Specs: []ast.Spec{one}}
								k := "_:" + squash(Print(g))
								add(&Unit{Key: k, Name: k, Kind: "var", Node: g})
								continue
							}
							var one *ast.ValueSpec
							if len(vs.Values) == len(vs.Names) {
								one = &ast.ValueSpec{Names: []*ast.Ident{id}, Type: vs.Type, Values: []ast.Expr{vs.Values[i]}}
							} else if len(vs.Values) == 0 {
								one = &ast.ValueSpec{Names: []*ast.Ident{id}, Type: vs.Type}
							} else {
								// a, b = f(): keep the whole spec as the text of each name
								one = &ast.ValueSpec{Names: vs.Names, Type: vs.Type, Values: vs.Values}
							}
							add(&Unit{Key: id.Name, Name: id.Name, Kind: "var",
								Node: &ast.GenDecl{Tok: token.VAR, Specs: []ast.Spec{one}}})
						}
					}
				case token.CONST:
					var curType ast.Expr
					var curVals []ast.Expr
					for iota, sp := range x.Specs {
						vs := sp.(*ast.ValueSpec)
						if len(vs.Values) > 0 || vs.Type != nil {
							curType, curVals = vs.Type, vs.Values
						}
						for i, id := range vs.Names {
							one := &ast.ValueSpec{Names: []*ast.Ident{id}, Type: curType}
							suffix := ""
							if i < len(curVals) {
								one.Values = []ast.Expr{curVals[i]}
								if mentionsIota(curVals[i]) {
									suffix = fmt.Sprintf(" /*iota=%d*/", iota)
								}
							}
							key := id.Name
							if id.Name == "_" {
								key = fmt.Sprintf("_const@%s#%d", n, iota)
							}
							add(&Unit{Key: key, Name: key, Kind: "const", Suffix: suffix,
								Node: &ast.GenDecl{Tok: token.CONST, Specs: []ast.Spec{one}}})
						}
					}
				}
			}
		}
	}
	return pkg, nil
}
