package goeq

import (
	"fmt"
	"os"
	"os/exec"
	"path/filepath"
	"regexp"
	"sort"
	"strings"
	"time"
)

// Obligation is one EQ(d).
type Obligation struct {
	ID        string   `json:"id"`
	Props     []string `json:"props"`
	Kind      string   `json:"kind"`
	DeclKind  string   `json:"decl_kind"`
	Status    string   `json:"status"`
	Backend   string   `json:"backend,omitempty"`
	RulesUsed []string `json:"rules_used,omitempty"`
	Ghost     []string `json:"ghost_obligations,omitempty"`
	Reason    string   `json:"reason,omitempty"`
	Diff      string   `json:"diff,omitempty"`
	RepoFile  string   `json:"repo_file"`
	UpFile    string   `json:"upstream_file,omitempty"`
	TimeS     float64  `json:"time_s"`
}

// Report is the JSON document written by `goeq check`.
type Report struct {
	Engine         string            `json:"engine"`
	RepoDir        string            `json:"repo_dir"`
	UpstreamDir    string            `json:"upstream_dir"`
	UpstreamModule string            `json:"upstream_module"`
	DeltasFile     string            `json:"deltas_file"`
	Warnings       []string          `json:"warnings,omitempty"`
	Normalisation  []string          `json:"normalisation"`
	PropertyGroups map[string]string `json:"property_groups"`
	PackagePairs   []map[string]any  `json:"package_pairs"`
	PropsSelected  []string          `json:"props_selected,omitempty"`
	Obligations    []Obligation      `json:"obligations"`
	RepoOnly       []string          `json:"repo_only"`
	UpstreamOnly   []string          `json:"upstream_only"`
	Counts         map[string]int    `json:"counts"`
	WallS          float64           `json:"wall_s"`
}

const maxDiff = 4000

func truncate(s string) string {
	if len(s) > maxDiff {
		return s[:maxDiff] + "\n...[truncated]\n"
	}
	return s
}

var reqRe = regexp.MustCompile(`(?m)^\s*(?:require\s+)?github\.com/ethereum/go-ethereum\s+(v\S+)`)
var replRe = regexp.MustCompile(`(?m)^\s*(?:replace\s+)?github\.com/ethereum/go-ethereum\s*(?:v\S+\s*)?=>\s*(\S+)(?:\s+(v\S+))?`)

// FindUpstream locates the go-ethereum source that /repo's go.mod selects.
func FindUpstream(repoDir string) (dir, version string, err error) {
	gomod, rerr := os.ReadFile(filepath.Join(repoDir, "go.mod"))
	if rerr == nil {
		modPath, ver := upMod, ""
		if m := replRe.FindSubmatch(gomod); m != nil {
			if len(m[2]) == 0 { // directory replacement
				d := string(m[1])
				if !filepath.IsAbs(d) {
					d = filepath.Join(repoDir, d)
				}
				if st, e := os.Stat(d); e == nil && st.IsDir() {
					return d, "replaced:" + d, nil
				}
			} else {
				modPath, ver = string(m[1]), string(m[2])
			}
		}
		if ver == "" {
			if m := reqRe.FindSubmatch(gomod); m != nil {
				ver = string(m[1])
			}
		}
		if ver != "" {
			var caches []string
			if c := os.Getenv("GOMODCACHE"); c != "" {
				caches = append(caches, c)
			}
			if gp := os.Getenv("GOPATH"); gp != "" {
				for _, p := range filepath.SplitList(gp) {
					caches = append(caches, filepath.Join(p, "pkg", "mod"))
				}
			}
			if h, e := os.UserHomeDir(); e == nil {
				caches = append(caches, filepath.Join(h, "go", "pkg", "mod"))
			}
			for _, c := range caches {
				d := filepath.Join(c, escapeModPath(modPath)+"@"+ver)
				if st, e := os.Stat(filepath.Join(d, "core", "vm")); e == nil && st.IsDir() {
					return d, ver, nil
				}
			}
		}
	}
	// fall back to the go command
	cmd := exec.Command("go", "list", "-m", "-f", "{{.Dir}} {{.Version}}", upMod)
	cmd.Dir = repoDir
	cmd.Env = append(os.Environ(), "GOFLAGS=-mod=mod", "GOPROXY=off", "GOSUMDB=off", "GOTOOLCHAIN=local")
	out, e := cmd.Output()
	if e != nil {
		return "", "", fmt.Errorf("cannot locate %s: go.mod lookup failed and `go list -m` failed: %v", upMod, e)
	}
	f := strings.Fields(string(out))
	if len(f) < 1 {
		return "", "", fmt.Errorf("cannot locate %s", upMod)
	}
	if len(f) > 1 {
		version = f[1]
	}
	return f[0], version, nil
}

func escapeModPath(p string) string {
	var sb strings.Builder
	for _, r := range p {
		if r >= 'A' && r <= 'Z' {
			sb.WriteByte('!')
			sb.WriteRune(r + 'a' - 'A')
		} else {
			sb.WriteRune(r)
		}
	}
	return sb.String()
}

// Options for Check.
type Options struct {
	RepoDir     string
	UpstreamDir string // "" = discover
	DeltasPath  string
	Props       []string // nil = all
}

func intersects(a, b []string) bool {
	for _, x := range a {
		for _, y := range b {
			if x == y {
				return true
			}
		}
	}
	return false
}

// Check runs E2 over all package pairs.
func Check(opt Options) (*Report, error) {
	t0 := time.Now()
	rep := &Report{Engine: "goeq", RepoDir: opt.RepoDir, DeltasFile: opt.DeltasPath,
		Normalisation: NormalisationRules, PropertyGroups: PropertyGroups,
		Obligations: []Obligation{}, RepoOnly: []string{}, UpstreamOnly: []string{},
		PropsSelected: opt.Props}
	upDir, ver := opt.UpstreamDir, "given"
	if upDir == "" {
		var err error
		upDir, ver, err = FindUpstream(opt.RepoDir)
		if err != nil {
			return nil, err
		}
	}
	rep.UpstreamDir = upDir
	rep.UpstreamModule = upMod + " " + ver
	if ver != "v1.12.0" {
		rep.Warnings = append(rep.Warnings, "reference is not go-ethereum v1.12.0 ("+ver+"); deltas.json was written against v1.12.0")
	}
	df, err := LoadDeltas(opt.DeltasPath)
	if err != nil {
		return nil, err
	}
	deltas := map[string]*Delta{}
	for i := range df.Deltas {
		d := &df.Deltas[i]
		if _, dup := deltas[d.Decl]; dup {
			return nil, fmt.Errorf("%s: duplicate entry for %s", opt.DeltasPath, d.Decl)
		}
		deltas[d.Decl] = d
	}
	seenDelta := map[string]bool{}
	counts := map[string]int{"pairs": 0, "reflexive": 0, "delta": 0, "failed": 0,
		"function_pairs": 0, "function_pairs_reflexive": 0}

	for _, pp := range Pairs {
		repoPkg, err := LoadPackage(filepath.Join(opt.RepoDir, pp.Rel), sideRepo, pp.UpImport, nil)
		if err != nil {
			return nil, err
		}
		var only map[string]bool
		if pp.SameNameOnly {
			only = map[string]bool{}
			for _, f := range repoPkg.Files {
				only[f] = true
			}
		}
		upPkg, err := LoadPackage(filepath.Join(upDir, pp.UpRel), sideUp, pp.UpImport, only)
		if err != nil {
			return nil, err
		}
		rep.PackagePairs = append(rep.PackagePairs, map[string]any{
			"repo": pp.Rel, "upstream": pp.UpRel, "repo_files": repoPkg.Files, "upstream_files": upPkg.Files,
			"upstream_restricted_to_same_named_files": pp.SameNameOnly,
		})
		for _, key := range repoPkg.Order {
			ru := repoPkg.Units[key]
			qual := pp.Rel + "." + ru.Name
			uu, ok := upPkg.Units[key]
			if !ok {
				rep.RepoOnly = append(rep.RepoOnly, qual)
				if _, has := deltas[qual]; has {
					seenDelta[qual] = true
					rep.Obligations = append(rep.Obligations, Obligation{ID: "EQ/" + qual, Props: propsFor(pp.Rel, ru), Kind: "eq",
						DeclKind: ru.Kind, Status: "failed", Reason: "stale delta entry: declaration has no upstream counterpart", RepoFile: pp.Rel + "/" + ru.File})
					counts["failed"]++
				}
				continue
			}
			props := propsFor(pp.Rel, ru)
			if opt.Props != nil && !intersects(props, opt.Props) {
				if _, has := deltas[qual]; has {
					seenDelta[qual] = true
				}
				continue
			}
			ts := time.Now()
			ob := Obligation{ID: "EQ/" + qual, Props: props, Kind: "eq", DeclKind: ru.Kind,
				RepoFile: pp.Rel + "/" + ru.File, UpFile: pp.UpRel + "/" + uu.File}
			d := deltas[qual]
			if d != nil {
				seenDelta[qual] = true
			}
			decide(&ob, ru, uu, d)
			ob.TimeS = float64(time.Since(ts).Microseconds()) / 1e6
			counts["pairs"]++
			isFn := ru.Kind == "func" || ru.Kind == "method" || ru.Kind == "init"
			if isFn {
				counts["function_pairs"]++
			}
			switch {
			case ob.Status == "failed":
				counts["failed"]++
			case ob.Backend == "reflexivity":
				counts["reflexive"]++
				if isFn {
					counts["function_pairs_reflexive"]++
				}
			default:
				counts["delta"]++
			}
			rep.Obligations = append(rep.Obligations, ob)
		}
		for _, key := range upPkg.Order {
			if _, ok := repoPkg.Units[key]; !ok {
				rep.UpstreamOnly = append(rep.UpstreamOnly, pp.Rel+"."+upPkg.Units[key].Name)
			}
		}
	}
	// delta entries that name nothing
	var stale []string
	for k := range deltas {
		if !seenDelta[k] {
			stale = append(stale, k)
		}
	}
	sort.Strings(stale)
	for _, k := range stale {
		rep.Obligations = append(rep.Obligations, Obligation{ID: "EQ/" + k, Props: []string{}, Kind: "eq", Status: "failed",
			Reason: "stale delta entry: no declaration of this name in /repo"})
		counts["failed"]++
	}
	counts["repo_only"] = len(rep.RepoOnly)
	counts["upstream_only"] = len(rep.UpstreamOnly)
	rep.Counts = counts
	rep.WallS = float64(time.Since(t0).Milliseconds()) / 1e3
	return rep, nil
}

func fail(ob *Obligation, reason, diff string) {
	ob.Status = "failed"
	ob.Backend = ""
	ob.Reason = reason
	ob.Diff = truncate(diff)
}

// decide discharges or fails EQ for one pair.
func decide(ob *Obligation, ru, uu *Unit, d *Delta) {
	upText := uu.Text()
	isFn := ru.Kind == "func" || ru.Kind == "method" || ru.Kind == "init"
	if ru.Kind != uu.Kind {
		fail(ob, fmt.Sprintf("declaration kind differs: /repo %s, upstream %s", ru.Kind, uu.Kind),
			UnifiedDiff("upstream", "repo", upText, ru.Text()))
		return
	}
	compare := func(repoText, upText, backend string) {
		if repoText == upText {
			ob.Status, ob.Backend = "discharged", backend
			return
		}
		if isFn {
			a, e1 := AlphaRename(repoText)
			b, e2 := AlphaRename(upText)
			if e1 == nil && e2 == nil && a == b {
				ob.Status, ob.Backend = "discharged", backend
				ob.RulesUsed = append(ob.RulesUsed, "N5 alpha-renaming of locals")
				return
			}
		}
		what := "normalised texts differ"
		if d != nil {
			what = "normalised texts differ after applying the declared erasure rules"
		}
		fail(ob, what, UnifiedDiff("upstream (normalised)", "repo (normalised"+map[bool]string{true: ", erased", false: ""}[d != nil]+")", upText, repoText))
	}
	if d == nil {
		compare(ru.Text(), upText, "reflexivity")
		return
	}
	// pinned delta
	for i := range d.Rules {
		if d.Rules[i].Kind == "replace_decl" {
			if len(d.Rules) != 1 {
				fail(ob, "replace_decl must be the only rule of its declaration", "")
				return
			}
			r := &d.Rules[i]
			repoText := ru.Text()
			ob.RulesUsed = []string{r.label(i)}
			ob.Ghost = []string{r.Ghost}
			if repoText == upText {
				fail(ob, "stale delta rule: declaration is now identical to upstream but is still pinned as different", "")
				return
			}
			if h := HashText(repoText); h != r.SHA256 {
				base, name := upText, "upstream (normalised)"
				if r.Text != "" {
					base, name = r.Text, "pinned text (deltas.json)"
				}
				fail(ob, fmt.Sprintf("pinned declaration changed: sha256 of normalised /repo text is %s, deltas.json pins %s", h, r.SHA256),
					UnifiedDiff(name, "repo (normalised)", base, repoText))
				return
			}
			ob.Status, ob.Backend = "discharged", "pinned-delta"
			return
		}
	}
	sortBoth := false
	for i := range d.Rules {
		r := &d.Rules[i]
		var used int
		var err error
		if r.Kind == "sort_map_keys" {
			var a, b int
			a, err = sortMapLits(ru.Node)
			if err == nil {
				b, err = sortMapLits(uu.Node)
			}
			used = a + b
			sortBoth = true
		} else {
			used, err = applyRule(r, ru.Node)
		}
		if err != nil {
			fail(ob, fmt.Sprintf("delta rule %s: %v", r.label(i), err), "")
			return
		}
		if used == 0 {
			fail(ob, "stale delta rule: "+r.label(i)+" matched nothing in /repo's declaration",
				UnifiedDiff("upstream (normalised)", "repo (normalised, partially erased)", upText, ru.Text()))
			return
		}
		if r.Count != 0 && used != r.Count {
			fail(ob, fmt.Sprintf("delta rule %s matched %d places, deltas.json requires exactly %d", r.label(i), used, r.Count),
				UnifiedDiff("upstream (normalised)", "repo (normalised, partially erased)", upText, ru.Text()))
			return
		}
		ob.RulesUsed = append(ob.RulesUsed, r.label(i))
		ob.Ghost = append(ob.Ghost, r.Ghost)
	}
	if sortBoth {
		upText = uu.Text()
	}
	compare(ru.Text(), upText, "erasure+reflexivity")
	if ob.Status == "failed" {
		return
	}
	// dedupe ghost obligations, keep order
	seen := map[string]bool{}
	var g []string
	for _, x := range ob.Ghost {
		if !seen[x] {
			seen[x] = true
			g = append(g, x)
		}
	}
	ob.Ghost = g
}
