package goeq

import (
	"fmt"
	"path/filepath"
	"strings"
)

// Show returns the normalised texts (no erasure) of one declaration, named as
// in obligation ids without the EQ/ prefix, e.g. "vm.(*EVM).Call".
func Show(opt Options, decl string) (repoText, upText string, err error) {
	decl = strings.TrimPrefix(decl, "EQ/")
	upDir := opt.UpstreamDir
	if upDir == "" {
		upDir, _, err = FindUpstream(opt.RepoDir)
		if err != nil {
			return
		}
	}
	for _, pp := range Pairs {
		if !strings.HasPrefix(decl, pp.Rel+".") {
			continue
		}
		name := strings.TrimPrefix(decl, pp.Rel+".")
		repoPkg, e := LoadPackage(filepath.Join(opt.RepoDir, pp.Rel), sideRepo, pp.UpImport, nil)
		if e != nil {
			return "", "", e
		}
		for _, k := range repoPkg.Order {
			u := repoPkg.Units[k]
			if u.Name != name {
				continue
			}
			repoText = u.Text()
			upPkg, e := LoadPackage(filepath.Join(upDir, pp.UpRel), sideUp, pp.UpImport, nil)
			if e != nil {
				return "", "", e
			}
			if uu, ok := upPkg.Units[k]; ok {
				upText = uu.Text()
			}
			return
		}
	}
	return "", "", fmt.Errorf("no declaration %q in /repo", decl)
}
