package goeq

import (
	"fmt"
	"go/ast"
	"go/parser"
	"go/token"
)

// AlphaRename implements N5 on the canonical text of one function
// declaration.  The text is re-parsed with the parser's own scope resolution
// (no type information needed); every identifier that resolves to a variable
// declared inside the function (parameter, result, receiver, :=, var, range,
// type switch) is renamed to $k in order of declaration.
func AlphaRename(text string) (string, error) {
	fset := token.NewFileSet()
	f, err := parser.ParseFile(fset, "alpha.go", "package p\n"+text, 0)
	if err != nil {
		return "", err
	}
	if len(f.Decls) != 1 {
		return "", fmt.Errorf("alpha: expected one declaration")
	}
	fd, ok := f.Decls[0].(*ast.FuncDecl)
	if !ok {
		return "", fmt.Errorf("alpha: not a function")
	}
	// parameter/result/receiver fields of the declaration and of nested literals
	paramField := map[*ast.Field]bool{}
	addFL := func(fl *ast.FieldList) {
		if fl == nil {
			return
		}
		for _, fld := range fl.List {
			paramField[fld] = true
		}
	}
	addFL(fd.Recv)
	addFL(fd.Type.Params)
	addFL(fd.Type.Results)
	ast.Inspect(fd, func(n ast.Node) bool {
		if fl, ok := n.(*ast.FuncLit); ok {
			addFL(fl.Type.Params)
			addFL(fl.Type.Results)
		}
		return true
	})
	// variables used as a bare composite-literal key keep their name (the key
	// may be a struct field name that the parser mis-resolved).
	keep := map[*ast.Object]bool{}
	ast.Inspect(fd, func(n ast.Node) bool {
		if cl, ok := n.(*ast.CompositeLit); ok {
			for _, el := range cl.Elts {
				if kv, ok := el.(*ast.KeyValueExpr); ok {
					if id, ok := kv.Key.(*ast.Ident); ok && id.Obj != nil {
						keep[id.Obj] = true
					}
				}
			}
		}
		return true
	})
	eligible := func(o *ast.Object) bool {
		if o == nil || o.Kind != ast.Var || keep[o] || o.Name == "_" {
			return false
		}
		if o.Pos() < fd.Pos() || o.Pos() > fd.End() {
			return false
		}
		switch d := o.Decl.(type) {
		case *ast.Field:
			return paramField[d]
		case *ast.AssignStmt, *ast.ValueSpec:
			return true
		}
		return false
	}
	// decide eligibility of every object before any identifier is renamed
	// (Object.Pos looks the declaring identifier up by name).
	elig := map[*ast.Object]bool{}
	ast.Inspect(fd, func(n ast.Node) bool {
		if id, ok := n.(*ast.Ident); ok && id.Obj != nil {
			if _, seen := elig[id.Obj]; !seen {
				elig[id.Obj] = eligible(id.Obj)
			}
		}
		return true
	})
	names := map[*ast.Object]string{}
	ast.Inspect(fd, func(n ast.Node) bool {
		id, ok := n.(*ast.Ident)
		if !ok || id.Obj == nil || !elig[id.Obj] {
			return true
		}
		nm, ok := names[id.Obj]
		if !ok {
			nm = fmt.Sprintf("$%d", len(names)+1)
			names[id.Obj] = nm
		}
		id.Name = nm
		return true
	})
	return Print(fd), nil
}
