package govc

import (
	"bufio"
	"fmt"
	"go/types"
	"os"
	"regexp"
	"sort"
	"strings"

	"verif/internal/smt"
)

type Clause struct {
	Kind  string // requires ensures invariant assertcall
	Label string
	Props []string
	Local bool // proved for the function itself, not exported to its callers ("local" inside the tag brackets)
	// "assumed" inside the tag brackets: a postcondition exported to callers but NOT proved for the function (listed in the evidence as an unchecked assumption)
	Assumed bool
	Use     []string // proof hint "use:<label>": of the entry data-structure invariants, only these (and the clause itself) are assumed when this invariant is re-established
	Src     string
	Expr    *SExpr
	Loop    int
	Callee  string
	File    string
	Line    int
}

type GhostDecl struct {
	Name string
	Sort *smt.Sort
	Init *SExpr
	Src  string
}

type Assign struct {
	Name string
	Expr *SExpr
	Src  string
}

type OnCall struct {
	Callee  string // substring pattern on the callee's full name
	Assigns []Assign
	Line    int
}

// WitnessDecl names a spec expression whose model value is wanted when an obligation of the function is refuted
// (replay input). Bytes > 0: the expression is a byte slice; its length and first Bytes bytes are reported.
type WitnessDecl struct {
	Name  string
	Expr  *SExpr
	Bytes int
	Src   string
}

type FuncSpec struct {
	Closure     []string // heaps for which the entry-closure axiom is wanted (every pointer stored there at entry was allocated before entry)
	Witness     []*WitnessDecl
	Name        string // full function name as printed by fnName, or "iface:<pkg.Iface.Method>", "fntype:<pkg.Type>"
	ParamNames  []string
	ResultNames []string
	Requires    []*Clause
	// assumptions of the verified function that its callers are NOT asked to establish (environment facts such as
	// "a 64-bit counter does not wrap"): unchecked, listed in the evidence
	Assumes []*Clause
	Ensures []*Clause
	// data-structure invariants of the receiver: assumed at entry, proved at exit; NOT re-proved at call sites
	// (sound provided every writer of the fields they mention is a function that carries the same invariant:
	// the encapsulation audit of the property that uses them)
	Invariants  []*Clause
	Modifies    []string
	ModifiesAll bool
	HasModifies bool // a modifies clause is present (possibly "modifies nothing")
	Macros      map[string]*Macro
	Ghosts      []*GhostDecl
	OnCalls     []*OnCall
	AssertCalls []*Clause
	Loops       map[int][]*Clause
	LoopMods    map[int][]string
	SafetyProps []string
	Trusted     bool // contract is assumed, body not verified
	Verify      bool // body is verified against the contract
	Pure        string
	Kind        string // "", "pure", "purestate", "mutating", "event"
	File        string
	Line        int
	NoInline    bool
	// fntype contracts: every function of the module whose signature is identical to the function type is verified
	// against this contract ("implementations by-signature")
	ImplBySig bool
	// "properties C07 C10": the properties whose runs check this spec's obligations that carry no tag of their own
	// (untagged clauses are assumed in every run; without this line their obligations go to the safety properties)
	HomeProps []string
}

type GlobalDecl struct {
	Name string
	Kind string // u256, sentinel
	Val  string
	Idx  int
}

type GhostGlobal struct {
	Name string
	Sort *smt.Sort
}

// Contracts is the parsed content of all contract files.
type Contracts struct {
	Specs    map[string]*FuncSpec
	Globals  map[string]*GlobalDecl
	Ghosts   map[string]*GhostGlobal
	Macros   map[string]*Macro
	Order    []string
	Errors   []string
	TypeInvs []TypeInv
	// fields declared immutable after construction ("Type.field"): kept by a modifies-* havoc; justified by the
	// syntactic obligation immutable-fields (written only on an object the writing function has just allocated)
	Immutable []string
}

// TypeInv is a type invariant: assumed whenever the field / map value is read,
// checked whenever it is written and for every allocation at function exit.
type TypeInv struct {
	Kind string // field | fieldstore | mapval | cellval
	Path string
	Pred string
	Expr *SExpr
	File string
	Line int
	Heap string     // resolved heap name
	Typ  types.Type // type of the value v
}

var labelRe = regexp.MustCompile(`^([A-Za-z0-9_\-\.]+)?\s*(\[[A-Za-z0-9 ,:\-\.]*\])?\s*:\s*(.*)$`)

func parseLabelProps(rest string) (label string, props []string, body string, ok bool) {
	m := labelRe.FindStringSubmatch(rest)
	if m == nil {
		return "", nil, rest, false
	}
	label = m[1]
	if m[2] != "" {
		for _, p := range strings.FieldsFunc(strings.Trim(m[2], "[]"), func(r rune) bool { return r == ' ' || r == ',' }) {
			props = append(props, p)
		}
	}
	return label, props, m[3], true
}

func sortByName(s string) *smt.Sort {
	switch s {
	case "bool":
		return smt.Bool
	case "u64", "uint64", "int":
		return smt.BV(64)
	case "u256":
		return smt.BV(256)
	case "ptr":
		return smt.BV(PtrW)
	case "slice":
		return smt.BV(SliceW)
	case "iface", "error":
		return smt.BV(IfaceW)
	case "addr":
		return smt.BV(160)
	case "str":
		return smt.BV(StrW)
	case "u8":
		return smt.BV(8)
	case "map_u64_u64":
		return smt.Array(smt.BV(64), smt.BV(64))
	}
	if strings.HasPrefix(s, "bv") {
		var w int
		fmt.Sscanf(s[2:], "%d", &w)
		if w > 0 {
			return smt.BV(w)
		}
	}
	return nil
}

// ParseContracts reads //@ lines from the given files.
func ParseContracts(files []string) *Contracts {
	cs := &Contracts{Specs: map[string]*FuncSpec{}, Globals: map[string]*GlobalDecl{}, Ghosts: map[string]*GhostGlobal{}, Macros: map[string]*Macro{}}
	for _, f := range files {
		cs.parseFile(f)
	}
	return cs
}

func (cs *Contracts) errf(file string, line int, f string, a ...interface{}) {
	cs.Errors = append(cs.Errors, fmt.Sprintf("%s:%d: %s", file, line, fmt.Sprintf(f, a...)))
}

var headerRe = regexp.MustCompile(`^(func|iface|fntype|funcvar)\s+(\S+?)(\([^)]*\))?\s*(\([^)]*\))?\s*$`)

func splitNames(s string) []string {
	s = strings.Trim(s, "()")
	var out []string
	for _, p := range strings.Split(s, ",") {
		p = strings.TrimSpace(p)
		if p != "" {
			out = append(out, p)
		}
	}
	return out
}

func (cs *Contracts) parseFile(file string) {
	fh, err := os.Open(file)
	if err != nil {
		cs.errf(file, 0, "%v", err)
		return
	}
	defer fh.Close()
	sc := bufio.NewScanner(fh)
	sc.Buffer(make([]byte, 1<<20), 1<<20)
	var cur *FuncSpec
	ln := 0
	var pending string
	var pendingLine int
	flush := func() {}
	handle := func(text string, line int) {
		text = strings.TrimSpace(text)
		if text == "" || strings.HasPrefix(text, "--") {
			return
		}
		word := text
		rest := ""
		if i := strings.IndexAny(text, " \t"); i >= 0 {
			word, rest = text[:i], strings.TrimSpace(text[i+1:])
		}
		switch word {
		case "func", "iface", "fntype", "funcvar":
			m := headerRe.FindStringSubmatch(text)
			if m == nil {
				cs.errf(file, line, "bad header %q", text)
				cur = nil
				return
			}
			name := m[2]
			if m[1] != "func" {
				name = m[1] + ":" + name
			}
			cur = &FuncSpec{Name: name, Macros: map[string]*Macro{}, Loops: map[int][]*Clause{}, LoopMods: map[int][]string{}, File: file, Line: line}
			if m[3] != "" {
				cur.ParamNames = splitNames(m[3])
			}
			if m[4] != "" {
				cur.ResultNames = splitNames(m[4])
			}
			if _, dup := cs.Specs[name]; dup {
				cs.errf(file, line, "duplicate spec for %s", name)
			}
			cs.Specs[name] = cur
			cs.Order = append(cs.Order, name)
		case "end":
			cur = nil
		case "global":
			fs := strings.Fields(rest)
			if len(fs) < 2 {
				cs.errf(file, line, "global <name> <kind> [value]")
				return
			}
			g := &GlobalDecl{Name: fs[0], Kind: fs[1], Idx: len(cs.Globals) + 1}
			if len(fs) > 2 {
				g.Val = fs[2]
			}
			cs.Globals[g.Name] = g
		case "immutable":
			for _, f := range strings.Split(rest, ",") {
				if f = strings.TrimSpace(f); f != "" {
					cs.Immutable = append(cs.Immutable, f)
				}
			}
		case "typeinv":
			// typeinv field <Type.field> nonnil | typeinv mapval <Type.field[.elem...]> nonnil
			//   typeinv <kind> <path> : <expr over v>     kind = field | fieldstore | mapval | cellval
			fs := strings.Fields(rest)
			if len(fs) < 3 {
				cs.errf(file, line, "typeinv field|fieldstore|mapval|cellval <path> nonnil | : expr")
				return
			}
			switch fs[0] {
			case "field", "fieldstore", "mapval", "cellval":
			default:
				cs.errf(file, line, "typeinv kind %q", fs[0])
				return
			}
			src := "v != nil"
			if fs[2] != "nonnil" {
				i := strings.Index(rest, ":")
				if i < 0 {
					cs.errf(file, line, "typeinv <kind> <path> : expr")
					return
				}
				src = strings.TrimSpace(rest[i+1:])
			}
			ex, err := ParseSpec(src)
			if err != nil {
				cs.errf(file, line, "%v", err)
				return
			}
			cs.TypeInvs = append(cs.TypeInvs, TypeInv{Kind: fs[0], Path: fs[1], Pred: src, Expr: ex, File: file, Line: line})
		case "ghostvar":
			fs := strings.Fields(rest)
			if len(fs) != 2 || sortByName(fs[1]) == nil {
				cs.errf(file, line, "ghostvar <name> <sort>")
				return
			}
			cs.Ghosts[fs[0]] = &GhostGlobal{Name: fs[0], Sort: sortByName(fs[1])}
		case "pred":
			// pred Name(a, b) = expr
			i := strings.Index(rest, "=")
			j := strings.Index(rest, "(")
			k := strings.Index(rest, ")")
			if i < 0 || j < 0 || k < 0 || k > i {
				cs.errf(file, line, "pred Name(params) = expr")
				return
			}
			name := strings.TrimSpace(rest[:j])
			params := splitNames(rest[j : k+1])
			body := strings.TrimSpace(rest[i+1:])
			ex, err := ParseSpec(body)
			if err != nil {
				cs.errf(file, line, "%v", err)
				return
			}
			m := &Macro{Name: name, Params: params, Body: ex, Src: body}
			if cur != nil {
				cur.Macros[name] = m
			} else {
				cs.Macros[name] = m
			}
		default:
			if cur == nil {
				cs.errf(file, line, "clause outside func block: %q", text)
				return
			}
			cs.clause(cur, word, rest, file, line)
		}
	}
	_ = flush
	for sc.Scan() {
		ln++
		l := strings.TrimSpace(sc.Text())
		if !strings.HasPrefix(l, "//@") {
			if pending != "" {
				handle(pending, pendingLine)
				pending = ""
			}
			continue
		}
		body := strings.TrimPrefix(l, "//@")
		// continuation lines start with "//@ |"
		tb := strings.TrimSpace(body)
		if strings.HasPrefix(tb, "|") {
			pending += " " + strings.TrimSpace(strings.TrimPrefix(tb, "|"))
			continue
		}
		if pending != "" {
			handle(pending, pendingLine)
		}
		pending = body
		pendingLine = ln
	}
	if pending != "" {
		handle(pending, pendingLine)
	}
}

func (cs *Contracts) clause(cur *FuncSpec, word, rest, file string, line int) {
	switch word {
	case "requires", "ensures", "invariant", "assume":
		label, props, body, ok := parseLabelProps(rest)
		if !ok {
			cs.errf(file, line, "%s label [props]: expr", word)
			return
		}
		ex, err := ParseSpec(body)
		if err != nil {
			cs.errf(file, line, "%v", err)
			return
		}
		cl := &Clause{Kind: word, Label: label, Props: props, Src: body, Expr: ex, File: file, Line: line}
		var kept []string
		for _, pr := range cl.Props {
			switch {
			case pr == "local":
				cl.Local = true
			case pr == "assumed":
				cl.Assumed = true
			case strings.HasPrefix(pr, "use:"):
				cl.Use = append(cl.Use, strings.TrimPrefix(pr, "use:"))
			default:
				kept = append(kept, pr)
			}
		}
		cl.Props = kept
		switch word {
		case "requires":
			cur.Requires = append(cur.Requires, cl)
		case "ensures":
			cur.Ensures = append(cur.Ensures, cl)
		case "assume":
			cur.Assumes = append(cur.Assumes, cl)
		default:
			cur.Invariants = append(cur.Invariants, cl)
		}
	case "modifies":
		cur.HasModifies = true
		for _, h := range strings.Split(rest, ",") {
			h = strings.TrimSpace(h)
			if h == "" || h == "nothing" {
				continue
			}
			if h == "*" {
				cur.ModifiesAll = true
				continue
			}
			cur.Modifies = append(cur.Modifies, h)
		}
	case "let":
		i := strings.Index(rest, "=")
		if i < 0 {
			cs.errf(file, line, "let name = expr")
			return
		}
		name := strings.TrimSpace(rest[:i])
		ex, err := ParseSpec(strings.TrimSpace(rest[i+1:]))
		if err != nil {
			cs.errf(file, line, "%v", err)
			return
		}
		cur.Macros[name] = &Macro{Name: name, Body: ex, Src: rest[i+1:]}
	case "ghost":
		// ghost name sort = init
		i := strings.Index(rest, "=")
		if i < 0 {
			cs.errf(file, line, "ghost name sort = init")
			return
		}
		fs := strings.Fields(rest[:i])
		if len(fs) != 2 || sortByName(fs[1]) == nil {
			cs.errf(file, line, "ghost name sort = init")
			return
		}
		ex, err := ParseSpec(strings.TrimSpace(rest[i+1:]))
		if err != nil {
			cs.errf(file, line, "%v", err)
			return
		}
		cur.Ghosts = append(cur.Ghosts, &GhostDecl{Name: fs[0], Sort: sortByName(fs[1]), Init: ex, Src: rest})
	case "oncall":
		// oncall <pattern> : a = e ; b = e
		i := strings.Index(rest, ":")
		if i < 0 {
			cs.errf(file, line, "oncall pattern : assigns")
			return
		}
		oc := &OnCall{Callee: strings.TrimSpace(rest[:i]), Line: line}
		for _, as := range strings.Split(rest[i+1:], ";") {
			as = strings.TrimSpace(as)
			if as == "" {
				continue
			}
			j := strings.Index(as, "=")
			if j < 0 || (j+1 < len(as) && as[j+1] == '=') {
				cs.errf(file, line, "bad assignment %q", as)
				return
			}
			ex, err := ParseSpec(strings.TrimSpace(as[j+1:]))
			if err != nil {
				cs.errf(file, line, "%v", err)
				return
			}
			oc.Assigns = append(oc.Assigns, Assign{Name: strings.TrimSpace(as[:j]), Expr: ex, Src: as})
		}
		cur.OnCalls = append(cur.OnCalls, oc)
	case "assertcall":
		// assertcall <pattern> label [props]: expr
		fs := strings.SplitN(rest, " ", 2)
		if len(fs) != 2 {
			cs.errf(file, line, "assertcall pattern label [props]: expr")
			return
		}
		label, props, body, ok := parseLabelProps(strings.TrimSpace(fs[1]))
		if !ok {
			cs.errf(file, line, "assertcall pattern label [props]: expr")
			return
		}
		ex, err := ParseSpec(body)
		if err != nil {
			cs.errf(file, line, "%v", err)
			return
		}
		cur.AssertCalls = append(cur.AssertCalls, &Clause{Kind: "assertcall", Label: label, Props: props, Src: body, Expr: ex, Callee: fs[0], File: file, Line: line})
	case "loop":
		// loop N invariant label [props]: expr   |  loop N modifies heaps
		fs := strings.SplitN(rest, " ", 3)
		if len(fs) < 3 {
			cs.errf(file, line, "loop N invariant|modifies ...")
			return
		}
		var n int
		fmt.Sscanf(fs[0], "%d", &n)
		switch fs[1] {
		case "invariant":
			label, props, body, ok := parseLabelProps(fs[2])
			if !ok {
				cs.errf(file, line, "loop N invariant label [props]: expr")
				return
			}
			ex, err := ParseSpec(body)
			if err != nil {
				cs.errf(file, line, "%v", err)
				return
			}
			cur.Loops[n] = append(cur.Loops[n], &Clause{Kind: "invariant", Label: label, Props: props, Src: body, Expr: ex, Loop: n, File: file, Line: line})
		case "modifies":
			for _, h := range strings.Split(fs[2], ",") {
				cur.LoopMods[n] = append(cur.LoopMods[n], strings.TrimSpace(h))
			}
		default:
			cs.errf(file, line, "loop N invariant|modifies")
		}
	case "witness", "witness-bytes":
		// witness name: expr     |    witness-bytes name N: expr
		i := strings.Index(rest, ":")
		if i < 0 {
			cs.errf(file, line, "%s name [N]: expr", word)
			return
		}
		hd := strings.Fields(rest[:i])
		wd := &WitnessDecl{Src: strings.TrimSpace(rest[i+1:])}
		if word == "witness-bytes" {
			if len(hd) != 2 {
				cs.errf(file, line, "witness-bytes name N: expr")
				return
			}
			fmt.Sscanf(hd[1], "%d", &wd.Bytes)
			if wd.Bytes <= 0 {
				cs.errf(file, line, "witness-bytes: bad N")
				return
			}
		} else if len(hd) != 1 {
			cs.errf(file, line, "witness name: expr")
			return
		}
		wd.Name = hd[0]
		ex, err := ParseSpec(wd.Src)
		if err != nil {
			cs.errf(file, line, "%v", err)
			return
		}
		wd.Expr = ex
		cur.Witness = append(cur.Witness, wd)
	case "closure":
		for _, h := range strings.Split(rest, ",") {
			if h = strings.TrimSpace(h); h != "" {
				cur.Closure = append(cur.Closure, h)
			}
		}
	case "safety":
		cur.SafetyProps = append(cur.SafetyProps, strings.FieldsFunc(strings.Trim(rest, "[]"), func(r rune) bool { return r == ' ' || r == ',' })...)
	case "properties":
		cur.HomeProps = append(cur.HomeProps, strings.FieldsFunc(strings.Trim(rest, "[]"), func(r rune) bool { return r == ' ' || r == ',' })...)
	case "implementations":
		if strings.TrimSpace(rest) != "by-signature" {
			cs.errf(file, line, "implementations by-signature")
			return
		}
		cur.ImplBySig = true
	case "trusted":
		cur.Trusted = true
	case "verify":
		cur.Verify = true
	case "noinline":
		cur.NoInline = true
	case "kind":
		cur.Kind = strings.TrimSpace(rest)
	default:
		cs.errf(file, line, "unknown clause %q", word)
	}
}

// expandHeaps turns the names of a modifies clause into concrete heap names.
func (p *Program) expandHeaps(names []string) ([]string, error) {
	var out []string
	for _, n := range names {
		n = normType(n)
		switch {
		case strings.HasPrefix(n, "cell:"), strings.HasPrefix(n, "ghost:"), strings.HasPrefix(n, "fld:"):
			out = append(out, n)
		case strings.HasPrefix(n, "map:"):
			out = append(out, n, "mapdom:"+strings.TrimPrefix(n, "map:"))
		case n == "alloc":
			// implicit
		case strings.HasSuffix(n, ".*"):
			tn := strings.TrimSuffix(n, ".*")
			t := p.resolveType(tn, nil)
			if t == nil || !isStruct(t) {
				return nil, fmt.Errorf("modifies %s: unknown struct type", n)
			}
			for _, l := range leavesOf(t) {
				out = append(out, fieldHeap(t, l.Path))
			}
		default:
			// pkg.Type.field.path
			parts := strings.Split(n, ".")
			ok := false
			// shortest type prefix first: "vm.EVM.Config.Tracer" is field Config.Tracer of vm.EVM, not Tracer of vm.Config
			for i := 1; i <= len(parts)-1; i++ {
				tn := strings.Join(parts[:i], ".")
				t := p.resolveType(tn, nil)
				if t != nil && isStruct(t) {
					path := strings.Join(parts[i:], ".")
					found := false
					for _, l := range leavesOf(t) {
						if l.Path == path {
							out = append(out, fieldHeap(t, l.Path))
							found = true
						} else if strings.HasPrefix(l.Path, path+".") {
							out = append(out, fieldHeap(t, l.Path))
							found = true
						}
					}
					if !found {
						return nil, fmt.Errorf("modifies %s: no such field", n)
					}
					ok = true
					break
				}
			}
			if !ok {
				return nil, fmt.Errorf("modifies %s: cannot resolve", n)
			}
		}
	}
	sort.Strings(out)
	return out, nil
}
