package govc

import (
	"fmt"
	"go/types"
	"sort"
	"strings"

	"golang.org/x/tools/go/ssa"
)

// AuditWriters checks the side condition of the type-invariant rule: every
// function of the module that writes a field / map type carrying a type
// invariant (or allocates such an object) is itself verified. An unverified
// writer could break the invariant that all verified readers assume.
func AuditWriters(p *Program, prop string) []*OblResult {
	var out []*OblResult
	if len(p.Inv) == 0 {
		return out
	}
	var names []string
	for n := range p.funcs {
		names = append(names, n)
	}
	sort.Strings(names)
	for _, n := range names {
		fn := p.funcs[n]
		if len(fn.Blocks) == 0 || !p.inModule(fn) {
			continue
		}
		if fn.Name() == "init" || strings.HasPrefix(fn.Name(), "init#") {
			continue
		}
		var hits []string
		seen := map[string]bool{}
		hit := func(h string) {
			if !seen[h] {
				seen[h] = true
				hits = append(hits, h)
			}
		}
		for _, b := range fn.Blocks {
			for _, ins := range b.Instrs {
				switch ins := ins.(type) {
				case *ssa.Store:
					addr := ins.Addr
					path := ""
					for {
						fa, ok := addr.(*ssa.FieldAddr)
						if !ok {
							break
						}
						st := fa.X.Type().Underlying().(*types.Pointer).Elem().Underlying().(*types.Struct)
						path = joinPath(st.Field(fa.Field).Name(), path)
						addr = fa.X
					}
					pt, ok := addr.Type().Underlying().(*types.Pointer)
					if ok && path != "" && isStruct(pt.Elem()) {
						if h := fieldHeap(pt.Elem(), path); len(p.Inv[h]) > 0 {
							hit(h)
						}
					} else if ok && path == "" && !isStruct(pt.Elem()) {
						if h := cellHeap(pt.Elem()); len(p.Inv[h]) > 0 {
							hit(h)
						}
					}
				case *ssa.MapUpdate:
					mt := ins.Map.Type().Underlying().(*types.Map)
					if len(p.Inv[mapHeap(mt)]) > 0 {
						hit(mapHeap(mt))
					}
				case *ssa.Alloc:
					t := ins.Type().Underlying().(*types.Pointer).Elem()
					if len(p.allocInvs(t)) > 0 {
						hit("alloc:" + typeStr(t))
					}
				case *ssa.MakeSlice:
					// zero-filled elements would violate a cell invariant without any store
					el := ins.Type().Underlying().(*types.Slice).Elem()
					if len(p.Inv[cellHeap(el)]) > 0 {
						if k, ok := ins.Len.(*ssa.Const); !ok || k.Int64() != 0 {
							hit("makeslice-nonempty:" + typeStr(el))
						}
					}
				}
			}
		}
		if len(hits) == 0 {
			continue
		}
		// verified if the function, or a function that inlines it, is verified: we require the function
		// itself (or its lexical parent for closures) to carry "verify", or to be inlined by a verified
		// function (constructors): accepted when it has no spec of its own and every caller in the
		// module is verified (checked conservatively: the function must be listed under "inlined" somewhere).
		root := fn
		for root.Parent() != nil {
			root = root.Parent()
		}
		spec := p.Specs[fnName(root)]
		status := "discharged"
		reason := ""
		if spec != nil && spec.Trusted {
			// not verified: its contract is an assumption, and so is its keeping the type invariants it writes under
			reason = "ASSUMED: writer with a trusted contract (listed as an assumption, not verified)"
		} else if spec == nil || !spec.Verify {
			if p.InlinedSomewhere[fnName(root)] {
				reason = "verified through inlining into its verified callers"
			} else {
				status = "failed"
				reason = "function writes state under a type invariant but is neither verified nor inlined into a verified function"
			}
		}
		sort.Strings(hits)
		out = append(out, &OblResult{ID: "typeinv-writers/" + n, Kind: "typeinv-audit", Func: n, Props: []string{prop}, Status: status,
			Backend: "syntactic scan of go/ssa", Reason: reason,
			Text: fmt.Sprintf("%s writes %s and is covered by verification", n, strings.Join(hits, ", "))})
	}
	return out
}
