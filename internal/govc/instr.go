package govc

import (
	"fmt"
	"go/constant"
	"go/token"
	"go/types"
	"math/big"
	"os"

	"golang.org/x/tools/go/ssa"

	"verif/internal/smt"
)

func (e *Enc) constVal(k *ssa.Const) *Val {
	c := e.C
	t := k.Type()
	if k.Value == nil {
		// zero value / nil
		if _, ok := t.Underlying().(*types.Tuple); ok {
			unsupported("tuple const")
		}
		return &Val{T: e.zero(t)}
	}
	switch k.Value.Kind() {
	case constant.Bool:
		return &Val{T: c.BoolLit(constant.BoolVal(k.Value))}
	case constant.Int:
		bi, ok := new(big.Int).SetString(k.Value.ExactString(), 10)
		if !ok {
			unsupported("int const %s", k.Value)
		}
		return &Val{T: c.Lit(bi, widthOf(t))}
	case constant.String:
		return &Val{T: e.stringLit(constant.StringVal(k.Value))}
	}
	unsupported("constant %s of kind %v", k, k.Value.Kind())
	return nil
}

// stringLit: string literals are abstract ids with known length and bytes.
func (e *Enc) stringLit(s string) *smt.Term {
	c := e.C
	id, ok := e.P.strLits[s]
	if !ok {
		id = uint64(len(e.P.strLits) + 1)
		e.P.strLits[s] = id
	}
	t := c.LitU(id, StrW)
	key := "strlit:" + s
	ax := c.Eq(c.App("strlen", smt.BV(64), t), e.bv64(uint64(len(s))))
	var parts []*smt.Term
	parts = append(parts, ax)
	if len(s) <= 40 {
		for i := 0; i < len(s); i++ {
			parts = append(parts, c.Eq(c.App("strbyte", smt.BV(8), t, e.bv64(uint64(i))), c.LitU(uint64(s[i]), 8)))
		}
	}
	e.addAxiomOnce(key, c.And(parts...))
	return t
}

func (e *Enc) instr(fr *Frame, st *State, ins ssa.Instruction) {
	c := e.C
	switch ins := ins.(type) {
	case *ssa.DebugRef:
		return
	case *ssa.Alloc:
		pt := ins.Type().Underlying().(*types.Pointer)
		obj := e.allocObj(st, pt.Elem())
		fr.Vals[ins] = &Val{T: e.mkPtr(obj, e.bv64(0))}
		if addrStaysLocal(ins, map[ssa.Value]bool{}) {
			fr.localCells = append(fr.localCells, localCell{obj: obj, typ: pt.Elem()})
		} else if os.Getenv("GOVC_DEBUG_LOCALS") != "" {
			fmt.Fprintf(os.Stderr, "non-local cell in %s: %s (%s) at %s\n", fnName(fr.Fn), ins.Comment, ins.Type(), e.posOf(ins.Pos()))
		}
		if len(e.P.allocInvs(pt.Elem())) > 0 {
			e.allocSites = append(e.allocSites, allocSite{obj: obj, guard: st.Reach, typ: pt.Elem(), pos: ins.Pos()})
		}
	case *ssa.UnOp:
		fr.Vals[ins] = e.unop(fr, st, ins)
	case *ssa.BinOp:
		fr.Vals[ins] = e.binop(fr, st, ins)
	case *ssa.Store:
		addr := e.val(fr, ins.Addr)
		loc := e.locOf(addr, ins.Addr.Type())
		e.checkNonNil(fr, st, loc, ins.Pos(), "nil-store")
		v := e.val(fr, ins.Val)
		vt := e.valTerm(v)
		if hn := locHeap(loc); hn != "" {
			e.invCheck(fr, st, hn, vt, ins.Pos())
		}
		e.store(st, loc, vt)
	case *ssa.FieldAddr:
		x := e.val(fr, ins.X)
		pt := ins.X.Type().Underlying().(*types.Pointer)
		stt := pt.Elem().Underlying().(*types.Struct)
		f := stt.Field(ins.Field)
		var base *Loc
		if x.Loc != nil {
			base = x.Loc
		} else {
			base = plainLoc(x.T, pt.Elem())
		}
		if base.Root == nil {
			if isOpaqueStructT(pt.Elem()) {
				// field of an opaque struct: keep as Loc with Root = the opaque type
				fr.Vals[ins] = &Val{Loc: &Loc{Base: base.Base, Root: pt.Elem(), Path: f.Name(), Typ: f.Type()}}
				return
			}
			unsupported("FieldAddr on non-struct location %s", typeStr(pt.Elem()))
		}
		fr.Vals[ins] = &Val{Loc: &Loc{Base: base.Base, Root: base.Root, Path: joinPath(base.Path, f.Name()), Typ: f.Type()}}
	case *ssa.Field:
		x := e.val(fr, ins.X)
		stt := ins.X.Type().Underlying().(*types.Struct)
		fr.Vals[ins] = &Val{T: e.extractField(x.T, ins.X.Type(), stt, ins.Field)}
	case *ssa.IndexAddr:
		fr.Vals[ins] = e.indexAddr(fr, st, ins)
	case *ssa.Index:
		fr.Vals[ins] = e.indexVal(fr, st, ins)
	case *ssa.Slice:
		fr.Vals[ins] = e.sliceOp(fr, st, ins)
	case *ssa.Extract:
		t := e.val(fr, ins.Tuple)
		if t.Tup == nil || ins.Index >= len(t.Tup) {
			unsupported("extract from non-tuple")
		}
		fr.Vals[ins] = t.Tup[ins.Index]
	case *ssa.Call:
		fr.Vals[ins] = e.call(fr, st, &ins.Call, ins, ins.Pos())
	case *ssa.ChangeType:
		fr.Vals[ins] = e.val(fr, ins.X)
	case *ssa.Convert:
		fr.Vals[ins] = e.convert(fr, st, ins)
	case *ssa.ChangeInterface:
		fr.Vals[ins] = e.val(fr, ins.X)
	case *ssa.MakeInterface:
		fr.Vals[ins] = e.makeInterface(fr, st, ins)
	case *ssa.TypeAssert:
		fr.Vals[ins] = e.typeAssert(fr, st, ins)
	case *ssa.MakeClosure:
		fn := ins.Fn.(*ssa.Function)
		var bind []*Val
		for _, b := range ins.Bindings {
			bind = append(bind, e.val(fr, b))
		}
		fr.Vals[ins] = &Val{Fn: fn, Bind: bind}
	case *ssa.MakeMap:
		mt := ins.Type().Underlying().(*types.Map)
		id := c.BVOp("bvadd", st.Alloc, e.bv64(1))
		st.Alloc = id
		e.setHeap(st, "ghost:objtype", c.Store(e.objTypeHeap(st), id, e.typeID(mt)))
		dn := mapDomHeap(mt)
		ds := smt.Array(smt.BV(64), smt.Array(mapKeySort(mt), smt.Bool))
		dh := e.heap(st, dn, ds)
		e.setHeap(st, dn, c.Store(dh, id, c.ConstArray(ds.Elem, c.False())))
		fr.Vals[ins] = &Val{T: id}
	case *ssa.MakeSlice:
		fr.Vals[ins] = e.makeSlice(fr, st, ins)
	case *ssa.Lookup:
		fr.Vals[ins] = e.lookup(fr, st, ins)
	case *ssa.MapUpdate:
		e.mapUpdate(fr, st, ins)
	case *ssa.Range:
		x := e.val(fr, ins.X)
		if _, ok := ins.X.Type().Underlying().(*types.Map); !ok {
			unsupported("range over %s", ins.X.Type())
		}
		fr.Vals[ins] = &Val{T: x.T}
		e.rangeInit(fr, st, ins, x.T)
	case *ssa.Next:
		fr.Vals[ins] = e.next(fr, st, ins)
	case *ssa.Defer:
		fr.defers = append(fr.defers, deferRec{executed: st.Reach, call: &ins.Call, fr: fr, instr: ins})
	case *ssa.RunDefers:
		e.runDefers(fr, st)
	case *ssa.Return:
		var vals []*Val
		for _, r := range ins.Results {
			vals = append(vals, e.val(fr, r))
		}
		fr.rets = append(fr.rets, retRec{st: st.clone(), vals: vals, pos: e.posOf(ins.Pos())})
		st.Reach = c.False()
	case *ssa.Panic:
		e.oblige(fr, st, "safety", "panic", "explicit panic unreachable at "+e.posOf(ins.Pos()), ins.Pos(), c.False(), e.Props)
		st.Reach = c.False()
	case *ssa.If, *ssa.Jump:
		return
	case *ssa.Go, *ssa.Send, *ssa.Select:
		unsupported("concurrency instruction %T", ins)
	case *ssa.SliceToArrayPointer:
		x := e.val(fr, ins.X)
		at := ins.Type().Underlying().(*types.Pointer).Elem().Underlying().(*types.Array)
		e.safety(fr, st, "slice-to-array-len", ins.Pos(), c.Cmp("bvuge", e.slLen(x.T), e.bv64(uint64(at.Len()))))
		fr.Vals[ins] = &Val{T: e.mkPtr(e.slObj(x.T), e.slOff(x.T))}
	case *ssa.MultiConvert:
		unsupported("MultiConvert")
	default:
		unsupported("instruction %T", ins)
	}
}

func (e *Enc) checkNonNil(fr *Frame, st *State, loc *Loc, pos token.Pos, what string) {
	c := e.C
	if loc.Base.IsLit() && loc.Base.Val.Sign() != 0 {
		return
	}
	if loc.Base.Op == "concat" {
		// pointer built here from a fresh object: obj = alloc+1 never 0 given alloc < 2^62
		if o := loc.Base.Args[0]; o.Op == "bvadd" {
			return
		}
	}
	e.safety(fr, st, what, pos, c.Ne(e.ptrObj(loc.Base), e.bv64(0)))
}

func (e *Enc) extractField(v *smt.Term, structT types.Type, stt *types.Struct, field int) *smt.Term {
	off := 0
	for i := 0; i < field; i++ {
		off += e.fieldBits(stt.Field(i).Type())
	}
	ft := stt.Field(field).Type()
	w := e.fieldBits(ft)
	return e.fromBits(e.C.Extract(off+w-1, off, v), ft)
}

func (e *Enc) fieldBits(t types.Type) int {
	return bitsW(t)
}

func (e *Enc) unop(fr *Frame, st *State, ins *ssa.UnOp) *Val {
	c := e.C
	x := e.val(fr, ins.X)
	switch ins.Op {
	case token.MUL: // load
		if g, ok := ins.X.(*ssa.Global); ok {
			q := qual(g.Pkg.Pkg) + "." + g.Name()
			if gv := e.globalConstVal(q, g.Type().Underlying().(*types.Pointer).Elem()); gv != nil {
				return &Val{T: gv}
			}
		}
		loc := e.locOf(x, ins.X.Type())
		e.checkNonNil(fr, st, loc, ins.Pos(), "nil-deref")
		v := e.load(st, loc)
		if wf := e.wellFormedAt(v, loc.Typ, st, locHeap(loc), e.ptrObj(loc.Base)); !wf.IsTrue() {
			e.assume(st, wf)
		}
		if hn := locHeap(loc); hn != "" {
			// type invariant: assumed at every read, checked at every write and allocation
			e.invAssume(st, hn, v, nil)
		}
		if ins.CommaOk {
			unsupported("channel receive")
		}
		return &Val{T: v}
	case token.NOT:
		return &Val{T: c.Not(x.T)}
	case token.SUB:
		return &Val{T: c.BVNeg(x.T)}
	case token.XOR:
		return &Val{T: c.BVNot(x.T)}
	case token.ARROW:
		unsupported("channel receive")
	}
	unsupported("unop %s", ins.Op)
	return nil
}

func (e *Enc) binop(fr *Frame, st *State, ins *ssa.BinOp) *Val {
	c := e.C
	x, y := e.val(fr, ins.X), e.val(fr, ins.Y)
	t := ins.X.Type()
	signed := isSigned(t)
	xt, yt := e.valTerm(x), e.valTerm(y)
	switch ins.Op {
	case token.EQL, token.NEQ:
		var eq *smt.Term
		if _, isIface := t.Underlying().(*types.Interface); isIface {
			eq = e.ifaceEq(xt, yt)
		} else {
			eq = c.Eq(xt, yt)
		}
		if ins.Op == token.NEQ {
			eq = c.Not(eq)
		}
		return &Val{T: eq}
	}
	if isBool(t) {
		unsupported("bool binop %s", ins.Op)
	}
	if isString(t) {
		if ins.Op == token.ADD {
			return &Val{T: c.App("strcat", smt.BV(StrW), xt, yt)}
		}
		unsupported("string binop %s", ins.Op)
	}
	switch ins.Op {
	case token.ADD:
		return &Val{T: c.BVOp("bvadd", xt, yt)}
	case token.SUB:
		return &Val{T: c.BVOp("bvsub", xt, yt)}
	case token.MUL:
		return &Val{T: c.BVOp("bvmul", xt, yt)}
	case token.QUO, token.REM:
		e.safety(fr, st, "div-by-zero", ins.Pos(), c.Ne(yt, c.LitU(0, yt.Sort.W)))
		op := "bvudiv"
		if ins.Op == token.REM {
			op = "bvurem"
		}
		if signed {
			op = "bvsdiv"
			if ins.Op == token.REM {
				op = "bvsrem"
			}
		}
		return &Val{T: c.BVOp(op, xt, yt)}
	case token.AND:
		return &Val{T: c.BVOp("bvand", xt, yt)}
	case token.OR:
		return &Val{T: c.BVOp("bvor", xt, yt)}
	case token.XOR:
		return &Val{T: c.BVOp("bvxor", xt, yt)}
	case token.AND_NOT:
		return &Val{T: c.BVOp("bvand", xt, c.BVNot(yt))}
	case token.SHL, token.SHR:
		// shift count: any unsigned (or signed non-negative) integer; counts >= width give 0 / sign fill
		w := xt.Sort.W
		ycnt := yt
		if isSigned(ins.Y.Type()) {
			e.safety(fr, st, "negative-shift", ins.Pos(), c.Cmp("bvsge", yt, c.LitU(0, yt.Sort.W)))
		}
		var big *smt.Term
		if ycnt.Sort.W > w {
			big = c.Cmp("bvuge", ycnt, c.LitU(uint64(w), ycnt.Sort.W))
			ycnt = c.Extract(w-1, 0, ycnt)
		} else {
			ycnt = c.ZExt(ycnt, w)
			big = c.Cmp("bvuge", ycnt, c.LitU(uint64(w), w))
		}
		if ins.Op == token.SHL {
			return &Val{T: c.Ite(big, c.LitU(0, w), c.BVOp("bvshl", xt, ycnt))}
		}
		if signed {
			return &Val{T: c.Ite(big, c.BVOp("bvashr", xt, c.LitU(uint64(w-1), w)), c.BVOp("bvashr", xt, ycnt))}
		}
		return &Val{T: c.Ite(big, c.LitU(0, w), c.BVOp("bvlshr", xt, ycnt))}
	case token.LSS, token.LEQ, token.GTR, token.GEQ:
		var op string
		switch ins.Op {
		case token.LSS:
			op = "lt"
		case token.LEQ:
			op = "le"
		case token.GTR:
			op = "gt"
		default:
			op = "ge"
		}
		if signed {
			op = "bvs" + op
		} else {
			op = "bvu" + op
		}
		return &Val{T: c.Cmp(op, xt, yt)}
	}
	unsupported("binop %s", ins.Op)
	return nil
}

func (e *Enc) ifaceEq(a, b *smt.Term) *smt.Term { return e.C.Eq(a, b) }

func (e *Enc) convert(fr *Frame, st *State, ins *ssa.Convert) *Val {
	c := e.C
	x := e.val(fr, ins.X)
	from, to := ins.X.Type(), ins.Type()
	fb, fok := from.Underlying().(*types.Basic)
	tb, tok := to.Underlying().(*types.Basic)
	if fok && tok && fb.Info()&types.IsInteger != 0 && tb.Info()&types.IsInteger != 0 {
		wf, wt := widthOf(from), widthOf(to)
		if wt <= wf {
			return &Val{T: c.Extract(wt-1, 0, x.T)}
		}
		if isSigned(from) {
			return &Val{T: c.SExt(x.T, wt)}
		}
		return &Val{T: c.ZExt(x.T, wt)}
	}
	// string(bytes)
	if _, ok := from.Underlying().(*types.Slice); ok && isString(to) {
		return &Val{T: e.stringOfBytes(st, x.T)}
	}
	// []byte(string)
	if sl, ok := to.Underlying().(*types.Slice); ok && isString(from) {
		return &Val{T: e.bytesOfString(st, x.T, sl.Elem())}
	}
	if fok && tok && fb.Info()&types.IsString != 0 && tb.Info()&types.IsString != 0 {
		return x
	}
	// unsafe.Pointer and others
	unsupported("convert %s -> %s", typeStr(from), typeStr(to))
	return nil
}

// regionArr returns the content array (BV64 -> elem) of the region of a byte slice.
func (e *Enc) byteRegion(st *State, obj *smt.Term) *smt.Term {
	h := e.heap(st, cellHeap(types.Typ[types.Uint8]), heapSort(smt.BV(8)))
	return e.C.Select(h, obj)
}

// stringOfBytes: abstract string id determined by the bytes' content.
func (e *Enc) stringOfBytes(st *State, sl *smt.Term) *smt.Term {
	c := e.C
	arr := e.byteRegion(st, e.slObj(sl))
	e.work(st, e.slLen(sl)) // string(b) copies the bytes
	id := c.App("str_of_bytes", smt.BV(StrW), arr, e.slOff(sl), e.slLen(sl))
	e.assume(st, c.Eq(c.App("strlen", smt.BV(64), id), e.slLen(sl)))
	// content axiom, quantified: forall i < len: strbyte(id,i) = arr[off+i]
	i := c.BoundVar("i", smt.BV(64))
	e.assume(st, c.Forall([]*smt.Term{i}, c.Implies(c.Cmp("bvult", i, e.slLen(sl)),
		c.Eq(c.App("strbyte", smt.BV(8), id, i), c.Select(arr, c.BVOp("bvadd", e.slOff(sl), i))))))
	return id
}

func (e *Enc) bytesOfString(st *State, s *smt.Term, elem types.Type) *smt.Term {
	c := e.C
	obj := e.allocObj(st, elem)
	ln := c.App("strlen", smt.BV(64), s)
	e.assume(st, c.Cmp("bvult", ln, e.bv64(1<<40)))
	// content: region equals strbyte(s, .)
	hn := cellHeap(elem)
	h := e.heap(st, hn, heapSort(smt.BV(8)))
	arr := c.Fresh("strbytes", smt.Array(smt.BV(64), smt.BV(8)))
	i := c.BoundVar("i", smt.BV(64))
	e.assume(st, c.Forall([]*smt.Term{i}, c.Implies(c.Cmp("bvult", i, ln), c.Eq(c.Select(arr, i), c.App("strbyte", smt.BV(8), s, i)))))
	e.setHeap(st, hn, c.Store(h, obj, arr))
	// string([]byte(s)) == s: converting the fresh copy back yields the same string
	e.assume(st, c.Eq(c.App("str_of_bytes", smt.BV(StrW), arr, e.bv64(0), ln), s))
	return e.mkSlice(obj, e.bv64(0), ln, ln)
}

func (e *Enc) typeID(t types.Type) *smt.Term {
	key := typeStr(t)
	id, ok := e.P.typeIDs[key]
	if !ok {
		id = uint64(len(e.P.typeIDs) + 1)
		e.P.typeIDs[key] = id
		e.P.typeByID[id] = t
	}
	return e.bv64(id)
}

func (e *Enc) makeInterface(fr *Frame, st *State, ins *ssa.MakeInterface) *Val {
	c := e.C
	x := e.val(fr, ins.X)
	t := ins.X.Type()
	tid := e.typeID(t)
	var pay *smt.Term
	xt := e.valTerm(x)
	switch {
	case xt.Sort == smt.Bool:
		pay = c.ZExt(e.toBits(xt), 128)
	case xt.Sort.W <= 128:
		pay = c.ZExt(xt, 128)
	default:
		pay = c.App("box:"+typeStr(t), smt.BV(128), xt)
	}
	return &Val{T: c.Concat(tid, pay)}
}

func (e *Enc) ifaceType(v *smt.Term) *smt.Term { return e.C.Extract(191, 128, v) }
func (e *Enc) ifacePay(v *smt.Term) *smt.Term  { return e.C.Extract(127, 0, v) }

func (e *Enc) typeAssert(fr *Frame, st *State, ins *ssa.TypeAssert) *Val {
	c := e.C
	x := e.val(fr, ins.X)
	at := ins.AssertedType
	var ok, val *smt.Term
	if _, isIface := at.Underlying().(*types.Interface); isIface {
		ok = e.implements(e.ifaceType(x.T), at)
		val = x.T
	} else {
		ok = c.Eq(e.ifaceType(x.T), e.typeID(at))
		s := sortOf(at)
		pay := e.ifacePay(x.T)
		switch {
		case s == smt.Bool:
			val = c.Eq(c.Extract(0, 0, pay), c.LitU(1, 1))
		case s.W <= 128:
			val = c.Extract(s.W-1, 0, pay)
		default:
			val = c.App("unbox:"+typeStr(at), s, pay)
		}
	}
	if ins.CommaOk {
		zero := e.zero(at)
		return &Val{Tup: []*Val{{T: c.Ite(ok, val, zero)}, {T: ok}}}
	}
	e.safety(fr, st, "type-assert", ins.Pos(), ok)
	return &Val{T: val}
}

// implements: does the dynamic type with id tid implement interface it?
func (e *Enc) implements(tid *smt.Term, it types.Type) *smt.Term {
	c := e.C
	name := "implements:" + typeStr(it)
	res := c.App(name, smt.Bool, tid)
	// nil interface never satisfies a type assertion
	e.addAxiomOnce(name+":nil", c.Not(c.App(name, smt.Bool, e.bv64(0))))
	// facts for known concrete types are added lazily when tid is a literal
	if tid.IsLit() {
		if t, ok := e.P.typeByID[tid.Val.Uint64()]; ok {
			iface := it.Underlying().(*types.Interface)
			return c.BoolLit(types.Implements(t, iface))
		}
	}
	e.implQueries = append(e.implQueries, implQuery{it: it, name: name})
	return res
}

type implQuery struct {
	it   types.Type
	name string
}

// finalizeImplements adds, for every interface-implements predicate used, the facts for all known type ids.
func (e *Enc) finalizeImplements() {
	c := e.C
	seen := map[string]bool{}
	for _, q := range e.implQueries {
		if seen[q.name] {
			continue
		}
		seen[q.name] = true
		iface := q.it.Underlying().(*types.Interface)
		for id, t := range e.P.typeByID {
			e.Axioms = append(e.Axioms, c.Eq(c.App(q.name, smt.Bool, e.bv64(id)), c.BoolLit(types.Implements(t, iface))))
		}
	}
}

func idxTerm(e *Enc, v *smt.Term, t types.Type) *smt.Term {
	// convert an index of any integer type to 64 bits, preserving sign
	w := v.Sort.W
	if w == 64 {
		return v
	}
	if isSigned(t) {
		return e.C.SExt(v, 64)
	}
	return e.C.ZExt(v, 64)
}

// inRange: 0 <= i < n (strict) or 0 <= i <= n for an index of Go type t (64-bit term).
func (e *Enc) inRange(i *smt.Term, t types.Type, n *smt.Term, strict bool) *smt.Term {
	c := e.C
	// n is a non-negative int < 2^63, so unsigned comparison covers negative i too
	if strict {
		return c.Cmp("bvult", i, n)
	}
	return c.Cmp("bvule", i, n)
}

func (e *Enc) indexAddr(fr *Frame, st *State, ins *ssa.IndexAddr) *Val {
	c := e.C
	x := e.val(fr, ins.X)
	i := idxTerm(e, e.val(fr, ins.Index).T, ins.Index.Type())
	switch xt := ins.X.Type().Underlying().(type) {
	case *types.Slice:
		e.safety(fr, st, "index-bounds", ins.Pos(), e.inRange(i, ins.Index.Type(), e.slLen(x.T), true))
		sl := slotsOf(xt.Elem())
		idx := c.BVOp("bvadd", e.slOff(x.T), c.BVOp("bvmul", i, e.bv64(uint64(sl))))
		return &Val{T: e.mkPtr(e.slObj(x.T), idx)}
	case *types.Pointer:
		at := xt.Elem().Underlying().(*types.Array)
		if x.Loc != nil && x.Loc.Root != nil {
			unsupported("IndexAddr into array field %s.%s", typeStr(x.Loc.Root), x.Loc.Path)
		}
		base := x.T
		if x.Loc != nil {
			base = x.Loc.Base
		}
		e.safety(fr, st, "nil-deref", ins.Pos(), c.Ne(e.ptrObj(base), e.bv64(0)))
		e.safety(fr, st, "index-bounds", ins.Pos(), e.inRange(i, ins.Index.Type(), e.bv64(uint64(at.Len())), true))
		sl := slotsOf(at.Elem())
		idx := c.BVOp("bvadd", e.ptrIdx(base), c.BVOp("bvmul", i, e.bv64(uint64(sl))))
		return &Val{T: e.mkPtr(e.ptrObj(base), idx)}
	}
	unsupported("IndexAddr on %s", ins.X.Type())
	return nil
}

func (e *Enc) indexVal(fr *Frame, st *State, ins *ssa.Index) *Val {
	c := e.C
	x := e.val(fr, ins.X)
	i := idxTerm(e, e.val(fr, ins.Index).T, ins.Index.Type())
	switch xt := ins.X.Type().Underlying().(type) {
	case *types.Array:
		n := int(xt.Len())
		e.safety(fr, st, "index-bounds", ins.Pos(), e.inRange(i, ins.Index.Type(), e.bv64(uint64(n)), true))
		w := bitsW(xt.Elem())
		if i.IsLit() {
			k := int(i.Val.Int64())
			return &Val{T: e.fromBits(c.Extract(k*w+w-1, k*w, x.T), xt.Elem())}
		}
		tw := x.T.Sort.W
		sh := c.BVOp("bvmul", c.ZExt(c.Extract(31, 0, i), tw), c.LitU(uint64(w), tw))
		return &Val{T: e.fromBits(c.Extract(w-1, 0, c.BVOp("bvlshr", x.T, sh)), xt.Elem())}
	case *types.Basic: // string
		ln := c.App("strlen", smt.BV(64), x.T)
		e.safety(fr, st, "index-bounds", ins.Pos(), c.Cmp("bvult", i, ln))
		return &Val{T: c.App("strbyte", smt.BV(8), x.T, i)}
	}
	unsupported("Index on %s", ins.X.Type())
	return nil
}

func (e *Enc) sliceOp(fr *Frame, st *State, ins *ssa.Slice) *Val {
	c := e.C
	x := e.val(fr, ins.X)
	get := func(v ssa.Value) *smt.Term {
		if v == nil {
			return nil
		}
		return idxTerm(e, e.val(fr, v).T, v.Type())
	}
	lo, hi, mx := get(ins.Low), get(ins.High), get(ins.Max)
	switch xt := ins.X.Type().Underlying().(type) {
	case *types.Slice:
		obj, off, ln, cp := e.slObj(x.T), e.slOff(x.T), e.slLen(x.T), e.slCap(x.T)
		if lo == nil {
			lo = e.bv64(0)
		}
		if hi == nil {
			hi = ln
		}
		bound := cp
		if mx != nil {
			e.safety(fr, st, "slice-bounds-max", ins.Pos(), c.Cmp("bvule", mx, cp))
			bound = mx
		}
		// Go: 0 <= lo <= hi <= max <= cap
		e.safety(fr, st, "slice-bounds-high", ins.Pos(), c.Cmp("bvule", hi, bound))
		e.safety(fr, st, "slice-bounds-low", ins.Pos(), c.Cmp("bvule", lo, hi))
		sl := slotsOf(xt.Elem())
		noff := c.BVOp("bvadd", off, c.BVOp("bvmul", lo, e.bv64(uint64(sl))))
		nlen := c.BVOp("bvsub", hi, lo)
		ncap := c.BVOp("bvsub", bound, lo)
		// slicing a nil slice keeps it nil
		return &Val{T: e.mkSlice(obj, noff, nlen, ncap)}
	case *types.Pointer: // *[N]T
		at := xt.Elem().Underlying().(*types.Array)
		n := e.bv64(uint64(at.Len()))
		var base *smt.Term
		if x.Loc != nil && x.Loc.Root != nil {
			base = e.copyOutArrayField(st, x.Loc, at)
		} else if x.Loc != nil {
			base = x.Loc.Base
		} else {
			base = x.T
		}
		e.safety(fr, st, "nil-deref", ins.Pos(), c.Ne(e.ptrObj(base), e.bv64(0)))
		if lo == nil {
			lo = e.bv64(0)
		}
		if hi == nil {
			hi = n
		}
		bound := n
		if mx != nil {
			e.safety(fr, st, "slice-bounds-max", ins.Pos(), c.Cmp("bvule", mx, n))
			bound = mx
		}
		e.safety(fr, st, "slice-bounds-high", ins.Pos(), c.Cmp("bvule", hi, bound))
		e.safety(fr, st, "slice-bounds-low", ins.Pos(), c.Cmp("bvule", lo, hi))
		sl := slotsOf(at.Elem())
		noff := c.BVOp("bvadd", e.ptrIdx(base), c.BVOp("bvmul", lo, e.bv64(uint64(sl))))
		return &Val{T: e.mkSlice(e.ptrObj(base), noff, c.BVOp("bvsub", hi, lo), c.BVOp("bvsub", bound, lo))}
	case *types.Basic: // string
		unsupported("string slicing")
	}
	unsupported("Slice on %s", ins.X.Type())
	return nil
}

// copyOutArrayField: slicing an array-typed struct field. The field's bytes are
// copied into a fresh region and the field itself is havocked from here on
// (any later read of the field sees an arbitrary value): sound, imprecise.
func (e *Enc) copyOutArrayField(st *State, loc *Loc, at *types.Array) *smt.Term {
	v := e.load(st, loc)
	obj := e.allocObj(st, at)
	p := e.mkPtr(obj, e.bv64(0))
	e.store(st, plainLoc(p, at), v)
	e.havocHeap(st, fieldHeap(loc.Root, loc.Path))
	e.note("array field %s.%s sliced: modelled by copy-out, field havocked afterwards", typeStr(loc.Root), loc.Path)
	return p
}

func (e *Enc) makeSlice(fr *Frame, st *State, ins *ssa.MakeSlice) *Val {
	c := e.C
	ln := idxTerm(e, e.val(fr, ins.Len).T, ins.Len.Type())
	cp := idxTerm(e, e.val(fr, ins.Cap).T, ins.Cap.Type())
	lim := e.bv64(1 << 40)
	// Go panics on negative or huge len (makeslice: len out of range); 2^40 elements is treated as the allocation limit
	e.safety(fr, st, "makeslice-len", ins.Pos(), c.Cmp("bvule", ln, lim))
	e.safety(fr, st, "makeslice-cap", ins.Pos(), c.And(c.Cmp("bvule", ln, cp), c.Cmp("bvule", cp, lim)))
	elem := ins.Type().Underlying().(*types.Slice).Elem()
	obj := e.allocObj(st, elem)
	e.work(st, ln)
	return &Val{T: e.mkSlice(obj, e.bv64(0), ln, cp)}
}

func (e *Enc) lookup(fr *Frame, st *State, ins *ssa.Lookup) *Val {
	c := e.C
	x := e.val(fr, ins.X)
	k := e.val(fr, ins.Index)
	mt, ok := ins.X.Type().Underlying().(*types.Map)
	if !ok {
		// string index
		i := idxTerm(e, k.T, ins.Index.Type())
		ln := c.App("strlen", smt.BV(64), x.T)
		e.safety(fr, st, "index-bounds", ins.Pos(), c.Cmp("bvult", i, ln))
		return &Val{T: c.App("strbyte", smt.BV(8), x.T, i)}
	}
	dom, val := e.mapRead(st, mt, x.T, e.valTerm(k))
	if wf := e.wellFormedAt(val, mt.Elem(), st, mapHeap(mt), x.T); !wf.IsTrue() {
		e.assume(st, wf)
	}
	e.invAssume(st, mapHeap(mt), val, dom)
	if ins.CommaOk {
		return &Val{Tup: []*Val{{T: val}, {T: dom}}}
	}
	return &Val{T: val}
}

// nonNil: the value of type t is not nil (pointers, maps, slices, interfaces).
func (e *Enc) nonNil(v *smt.Term, t types.Type) *smt.Term {
	c := e.C
	switch t.Underlying().(type) {
	case *types.Pointer:
		return c.Ne(e.ptrObj(v), e.bv64(0))
	case *types.Slice:
		return c.Ne(e.slObj(v), e.bv64(0))
	case *types.Map:
		return c.Ne(v, e.bv64(0))
	case *types.Interface:
		return c.Ne(e.ifaceType(v), e.bv64(0))
	}
	unsupported("nonnil type invariant on %s", typeStr(t))
	return nil
}

type allocSite struct {
	obj   *smt.Term
	guard *smt.Term
	typ   types.Type
	pos   token.Pos
}

func (e *Enc) mapSorts(mt *types.Map) (ds, vs *smt.Sort) {
	ks := mapKeySort(mt)
	if ks == smt.Bool {
		unsupported("bool map key")
	}
	ds = smt.Array(smt.BV(64), smt.Array(ks, smt.Bool))
	vs = smt.Array(smt.BV(64), smt.Array(ks, sortOf(mt.Elem())))
	return
}

// mapRead returns (key present, value-or-zero).
func (e *Enc) mapRead(st *State, mt *types.Map, m, k *smt.Term) (*smt.Term, *smt.Term) {
	c := e.C
	ds, vs := e.mapSorts(mt)
	dh := e.heap(st, mapDomHeap(mt), ds)
	vh := e.heap(st, mapHeap(mt), vs)
	dom := c.And(c.Ne(m, e.bv64(0)), c.Select(c.Select(dh, m), k))
	val := c.Ite(dom, c.Select(c.Select(vh, m), k), e.zero(mt.Elem()))
	return dom, val
}

func (e *Enc) mapUpdate(fr *Frame, st *State, ins *ssa.MapUpdate) {
	c := e.C
	m := e.val(fr, ins.Map).T
	mt := ins.Map.Type().Underlying().(*types.Map)
	k := e.valTerm(e.val(fr, ins.Key))
	v := e.valTerm(e.val(fr, ins.Value))
	e.safety(fr, st, "nil-map-write", ins.Pos(), c.Ne(m, e.bv64(0)))
	e.invCheck(fr, st, mapHeap(mt), v, ins.Pos())
	ds, vs := e.mapSorts(mt)
	dh := e.heap(st, mapDomHeap(mt), ds)
	vh := e.heap(st, mapHeap(mt), vs)
	e.setHeap(st, mapDomHeap(mt), c.Store(dh, m, c.Store(c.Select(dh, m), k, c.True())))
	e.setHeap(st, mapHeap(mt), c.Store(vh, m, c.Store(c.Select(vh, m), k, v)))
}

// Map iteration. Every *ssa.Range over a map owns two ghost cells: the number of entries handed out so far and the
// set of keys handed out. One step either yields a present key that was not handed out before, or reports the end, at
// which point every present key has been handed out. While the map's domain is the one the iteration started with
// (no insert / delete since), the count is below len(map) before a successful step and equals it at the end (the
// Go specification: each entry is produced exactly once when the map is not modified during the iteration).
func rangeOrdinal(rg *ssa.Range) int {
	n := 0
	for _, b := range rg.Parent().Blocks {
		for _, ins := range b.Instrs {
			if r, ok := ins.(*ssa.Range); ok {
				if r == rg {
					return n
				}
				n++
			}
		}
	}
	return -1
}

func iterHeaps(rg *ssa.Range) (count, seen string) {
	base := fmt.Sprintf("iter:%s#%d", fnName(rg.Parent()), rangeOrdinal(rg))
	return base + ":count", base + ":seen"
}

func (e *Enc) rangeInit(fr *Frame, st *State, rg *ssa.Range, m *smt.Term) {
	c := e.C
	mt := rg.X.Type().Underlying().(*types.Map)
	cn, sn := iterHeaps(rg)
	ks := sortOf(mt.Key())
	e.hsorts[cn] = smt.BV(64)
	e.hsorts[sn] = smt.Array(ks, smt.Bool)
	e.setHeap(st, cn, e.bv64(0))
	e.setHeap(st, sn, c.ConstArray(smt.Array(ks, smt.Bool), c.False()))
	ds, _ := e.mapSorts(mt)
	if e.rangeDom == nil {
		e.rangeDom = map[*ssa.Range]*smt.Term{}
	}
	e.rangeDom[rg] = c.Select(e.heap(st, mapDomHeap(mt), ds), m)
}

// next: one step of a map iteration.
func (e *Enc) next(fr *Frame, st *State, ins *ssa.Next) *Val {
	c := e.C
	if ins.IsString {
		unsupported("range over string")
	}
	it := e.val(fr, ins.Iter)
	rng := ins.Iter.(*ssa.Range)
	mt := rng.X.Type().Underlying().(*types.Map)
	ok := c.Fresh("next.ok", smt.Bool)
	k := c.Fresh("next.key", sortOf(mt.Key()))
	dom, val := e.mapRead(st, mt, it.T, k)
	cn, sn := iterHeaps(rng)
	cnt := e.heap(st, cn, e.hsorts[cn])
	seen := e.heap(st, sn, e.hsorts[sn])
	e.assume(st, c.Implies(ok, c.And(dom, c.Not(c.Select(seen, k)))))
	ds, _ := e.mapSorts(mt)
	domArr := c.Select(e.heap(st, mapDomHeap(mt), ds), it.T)
	q := c.BoundVar("k", sortOf(mt.Key()))
	e.assume(st, c.Implies(c.Not(ok), c.Forall([]*smt.Term{q}, c.Implies(c.And(c.Ne(it.T, e.bv64(0)), c.Select(domArr, q)), c.Select(seen, q)))))
	if e.rangeDom[rng] == domArr {
		n := e.mapLen(st, mt, it.T)
		e.assume(st, c.Implies(ok, c.Cmp("bvult", cnt, n)))
		e.assume(st, c.Implies(c.Not(ok), c.Eq(cnt, n)))
	} else {
		e.note("map modified during its iteration in %s: no relation between the step count and len(map)", fnName(fr.Fn))
	}
	e.setHeap(st, cn, c.Ite(ok, c.BVOp("bvadd", cnt, e.bv64(1)), cnt))
	e.setHeap(st, sn, c.Ite(ok, c.Store(seen, k, c.True()), seen))
	if wf := e.wellFormed(val, mt.Elem(), st); !wf.IsTrue() {
		e.assume(st, wf)
	}
	return &Val{Tup: []*Val{{T: ok}, {T: k}, {T: val}}}
}

func (e *Enc) runDefers(fr *Frame, st *State) {
	c := e.C
	for i := len(fr.defers) - 1; i >= 0; i-- {
		d := fr.defers[i]
		// run the deferred call under guard d.executed
		guard := d.executed
		// executed is the reach at the Defer; on the current path it was executed iff guard holds here.
		before := st.clone()
		inner := st.clone()
		inner.Reach = c.And(st.Reach, guard)
		if inner.Reach.IsFalse() {
			continue
		}
		e.call(fr, inner, d.call, d.instr, d.instr.Pos())
		skip := before
		skip.Reach = c.And(before.Reach, c.Not(guard))
		merged := e.mergeStates(inner.Reach, inner, skip)
		st.Heaps = merged.Heaps
		st.Alloc = merged.Alloc
		st.Reach = merged.Reach
		st.Gen = merged.Gen
	}
}
