package govc

import (
	"fmt"
	"math/big"
	"strings"
	"unicode"
)

// Spec expression AST.
type SExpr struct {
	Kind string // ident num str nil bool unop binop call sel index slice quant old typed
	Op   string
	Name string
	Num  *big.Int
	Args []*SExpr
	// quant
	Binders []Binder
	Pos     int
}

type Binder struct {
	Name string
	Type string
}

type specLexer struct {
	src  string
	pos  int
	toks []specTok
	i    int
}

type specTok struct {
	kind string // id num str op eof
	text string
	pos  int
}

func lexSpec(src string) ([]specTok, error) {
	var toks []specTok
	i := 0
	for i < len(src) {
		ch := rune(src[i])
		if unicode.IsSpace(ch) {
			i++
			continue
		}
		start := i
		switch {
		case unicode.IsLetter(ch) || ch == '_' || ch == '$':
			for i < len(src) && (unicode.IsLetter(rune(src[i])) || unicode.IsDigit(rune(src[i])) || src[i] == '_' || src[i] == '$') {
				i++
			}
			toks = append(toks, specTok{"id", src[start:i], start})
		case unicode.IsDigit(ch):
			if strings.HasPrefix(src[i:], "0x") {
				i += 2
				for i < len(src) && (unicode.IsDigit(rune(src[i])) || strings.ContainsRune("abcdefABCDEF_", rune(src[i]))) {
					i++
				}
			} else {
				for i < len(src) && (unicode.IsDigit(rune(src[i])) || src[i] == '_') {
					i++
				}
			}
			toks = append(toks, specTok{"num", src[start:i], start})
		case ch == '"':
			i++
			for i < len(src) && src[i] != '"' {
				i++
			}
			if i >= len(src) {
				return nil, fmt.Errorf("unterminated string")
			}
			toks = append(toks, specTok{"str", src[start+1 : i], start})
			i++
		default:
			ops := []string{"==>", "<==>", "::", "==", "!=", "<=", ">=", "&&", "||", "<<", ">>", "[]"}
			matched := false
			for _, op := range ops {
				if strings.HasPrefix(src[i:], op) {
					toks = append(toks, specTok{"op", op, start})
					i += len(op)
					matched = true
					break
				}
			}
			if !matched {
				toks = append(toks, specTok{"op", string(ch), start})
				i++
			}
		}
	}
	toks = append(toks, specTok{"eof", "", len(src)})
	return toks, nil
}

type specParser struct {
	toks []specTok
	i    int
	src  string
}

func ParseSpec(src string) (ex *SExpr, err error) {
	toks, err := lexSpec(src)
	if err != nil {
		return nil, err
	}
	p := &specParser{toks: toks, src: src}
	defer func() {
		if r := recover(); r != nil {
			if s, ok := r.(string); ok {
				err = fmt.Errorf("spec parse error: %s in %q", s, src)
				return
			}
			panic(r)
		}
	}()
	ex = p.expr()
	if p.peek().kind != "eof" {
		panic(fmt.Sprintf("unexpected %q at %d", p.peek().text, p.peek().pos))
	}
	return ex, nil
}

func (p *specParser) peek() specTok { return p.toks[p.i] }
func (p *specParser) next() specTok { t := p.toks[p.i]; p.i++; return t }
func (p *specParser) isOp(s string) bool {
	t := p.peek()
	return t.kind == "op" && t.text == s
}
func (p *specParser) isID(s string) bool {
	t := p.peek()
	return t.kind == "id" && t.text == s
}
func (p *specParser) expect(s string) {
	if !p.isOp(s) {
		panic(fmt.Sprintf("expected %q got %q at %d", s, p.peek().text, p.peek().pos))
	}
	p.i++
}

func (p *specParser) expr() *SExpr {
	if p.isID("forall") || p.isID("exists") {
		q := p.next().text
		var bs []Binder
		for {
			name := p.next()
			if name.kind != "id" {
				panic("binder name expected")
			}
			ty := p.typeExpr()
			bs = append(bs, Binder{name.text, ty})
			if p.isOp(",") {
				p.i++
				continue
			}
			break
		}
		p.expect("::")
		body := p.expr()
		return &SExpr{Kind: "quant", Op: q, Binders: bs, Args: []*SExpr{body}}
	}
	return p.iff()
}

func (p *specParser) typeExpr() string {
	var sb strings.Builder
	for p.isOp("*") || p.isOp("[]") {
		sb.WriteString(p.next().text)
	}
	t := p.next()
	if t.kind != "id" {
		panic("type name expected")
	}
	sb.WriteString(t.text)
	for p.isOp(".") {
		p.i++
		t2 := p.next()
		sb.WriteString("." + t2.text)
	}
	return sb.String()
}

func (p *specParser) iff() *SExpr {
	l := p.implies()
	for p.isOp("<==>") {
		p.i++
		r := p.implies()
		l = &SExpr{Kind: "binop", Op: "<==>", Args: []*SExpr{l, r}}
	}
	return l
}

func (p *specParser) implies() *SExpr {
	l := p.or()
	if p.isOp("==>") {
		p.i++
		var r *SExpr
		if p.isID("forall") || p.isID("exists") {
			r = p.expr()
		} else {
			r = p.implies()
		}
		return &SExpr{Kind: "binop", Op: "==>", Args: []*SExpr{l, r}}
	}
	return l
}

func (p *specParser) or() *SExpr {
	l := p.and()
	for p.isOp("||") {
		p.i++
		r := p.and()
		l = &SExpr{Kind: "binop", Op: "||", Args: []*SExpr{l, r}}
	}
	return l
}

func (p *specParser) and() *SExpr {
	l := p.cmp()
	for p.isOp("&&") {
		p.i++
		r := p.cmp()
		l = &SExpr{Kind: "binop", Op: "&&", Args: []*SExpr{l, r}}
	}
	return l
}

func (p *specParser) cmp() *SExpr {
	l := p.add()
	for _, op := range []string{"==", "!=", "<=", ">=", "<", ">"} {
		if p.isOp(op) {
			p.i++
			r := p.add()
			return &SExpr{Kind: "binop", Op: op, Args: []*SExpr{l, r}}
		}
	}
	return l
}

func (p *specParser) add() *SExpr {
	l := p.mul()
	for p.isOp("+") || p.isOp("-") || p.isOp("|") || p.isOp("^") {
		op := p.next().text
		r := p.mul()
		l = &SExpr{Kind: "binop", Op: op, Args: []*SExpr{l, r}}
	}
	return l
}

func (p *specParser) mul() *SExpr {
	l := p.unary()
	for p.isOp("*") || p.isOp("/") || p.isOp("%") || p.isOp("&") || p.isOp("<<") || p.isOp(">>") {
		op := p.next().text
		r := p.unary()
		l = &SExpr{Kind: "binop", Op: op, Args: []*SExpr{l, r}}
	}
	return l
}

func (p *specParser) unary() *SExpr {
	if p.isOp("!") || p.isOp("-") || p.isOp("*") || p.isOp("~") {
		op := p.next().text
		x := p.unary()
		return &SExpr{Kind: "unop", Op: op, Args: []*SExpr{x}}
	}
	return p.postfix()
}

func (p *specParser) postfix() *SExpr {
	x := p.primary()
	for {
		switch {
		case p.isOp("."):
			p.i++
			t := p.next()
			if t.kind != "id" {
				panic("field name expected")
			}
			x = &SExpr{Kind: "sel", Name: t.text, Args: []*SExpr{x}}
		case p.isOp("["):
			p.i++
			var lo, hi *SExpr
			if !p.isOp(":") {
				lo = p.expr()
			}
			if p.isOp(":") {
				p.i++
				if !p.isOp("]") {
					hi = p.expr()
				}
				p.expect("]")
				x = &SExpr{Kind: "slice", Args: []*SExpr{x, lo, hi}}
			} else {
				p.expect("]")
				x = &SExpr{Kind: "index", Args: []*SExpr{x, lo}}
			}
		case p.isOp("("):
			p.i++
			var args []*SExpr
			for !p.isOp(")") {
				args = append(args, p.expr())
				if p.isOp(",") {
					p.i++
				}
			}
			p.expect(")")
			if x.Kind != "ident" && x.Kind != "sel" {
				panic("call of non-identifier")
			}
			name := x.Name
			if x.Kind == "sel" {
				// pkg.Func style
				if x.Args[0].Kind == "ident" {
					name = x.Args[0].Name + "." + x.Name
				}
			}
			x = &SExpr{Kind: "call", Name: name, Args: args}
		default:
			return x
		}
	}
}

func (p *specParser) primary() *SExpr {
	t := p.next()
	switch t.kind {
	case "id":
		switch t.text {
		case "nil":
			return &SExpr{Kind: "nil"}
		case "true", "false":
			return &SExpr{Kind: "bool", Name: t.text}
		}
		return &SExpr{Kind: "ident", Name: t.text, Pos: t.pos}
	case "num":
		s := strings.ReplaceAll(t.text, "_", "")
		n := new(big.Int)
		var ok bool
		if strings.HasPrefix(s, "0x") {
			_, ok = n.SetString(s[2:], 16)
		} else {
			_, ok = n.SetString(s, 10)
		}
		if !ok {
			panic("bad number " + t.text)
		}
		return &SExpr{Kind: "num", Num: n}
	case "str":
		return &SExpr{Kind: "str", Name: t.text}
	case "op":
		if t.text == "(" {
			x := p.expr()
			p.expect(")")
			return x
		}
	}
	panic(fmt.Sprintf("unexpected %q at %d", t.text, t.pos))
}
