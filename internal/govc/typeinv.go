package govc

import (
	"go/token"
	"go/types"

	"verif/internal/smt"
)

// Type invariants (DESIGN §3.1.3, "typeinv"): a predicate over the values held
// in one field / map type / cell type. Rule: assumed at every read, checked at
// every write, and (for fields) checked for every object allocated by a
// function when that function returns. Sound provided every writer in the
// module is verified (AuditWriters) and, for predicates that read through the
// value (v.f), the fields they read are themselves guarded by a store rule.

func (e *Enc) invTerm(st *State, ti *TypeInv, v *smt.Term) *smt.Term {
	env := &Env{e: e, vars: map[string]*SVal{"v": {T: v, Typ: ti.Typ}}, st: st, alloc0: e.Alloc0, macros: e.P.Contr.Macros}
	if e.Top != nil && e.Top.Pkg != nil {
		env.pkg = e.Top.Pkg.Pkg
	}
	t, err := env.EvalBool(ti.Expr)
	if err != nil {
		unsupported("type invariant %s %s: %v", ti.Kind, ti.Path, err)
	}
	return t
}

// locHeap: the heap a non-struct location lives in.
func locHeap(loc *Loc) string {
	if loc.Root != nil {
		if isStruct(loc.Typ) {
			return ""
		}
		return fieldHeap(loc.Root, loc.Path)
	}
	if _, isArr := loc.Typ.Underlying().(*types.Array); isArr && !isU256(loc.Typ) {
		return ""
	}
	if isOpaqueStructT(loc.Typ) {
		return ""
	}
	return cellHeap(loc.Typ)
}

func (e *Enc) invAssume(st *State, hn string, v *smt.Term, guard *smt.Term) {
	for _, ti := range e.P.Inv[hn] {
		if ti.Kind == "fieldstore" {
			continue
		}
		t := e.invTerm(st, ti, v)
		if guard != nil {
			t = e.C.Implies(guard, t)
		}
		e.assume(st, t)
		e.UsedTypeInv[ti.Kind+" "+ti.Path+" : "+ti.Pred] = true
	}
}

func (e *Enc) invCheck(fr *Frame, st *State, hn string, v *smt.Term, pos token.Pos) {
	for _, ti := range e.P.Inv[hn] {
		t := e.invTerm(st, ti, v)
		e.oblige(fr, st, "typeinv", "store:"+ti.Path, "value written to "+ti.Path+" satisfies its type invariant ("+ti.Pred+") at "+e.posOf(pos), pos, t, e.Props)
	}
}

// allocInvs: field invariants that a freshly allocated object of type t must meet on function exit.
func (p *Program) allocInvs(t types.Type) []*TypeInv {
	var out []*TypeInv
	if !isStruct(t) {
		return out
	}
	for _, l := range leavesOf(t) {
		for _, ti := range p.Inv[fieldHeap(t, l.Path)] {
			if ti.Kind == "field" {
				out = append(out, ti)
			}
		}
	}
	return out
}

var _ = smt.Bool
