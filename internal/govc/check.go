package govc

import (
	"fmt"
	"go/types"
	"os"
	"sort"
	"strings"
	"sync"
	"time"

	"golang.org/x/tools/go/ssa"

	"verif/internal/smt"
)

// OblResult is the JSON-facing outcome of one obligation.
type OblResult struct {
	ID       string            `json:"id"`
	Kind     string            `json:"kind"`
	Props    []string          `json:"props,omitempty"`
	Func     string            `json:"func"`
	Pos      string            `json:"pos,omitempty"`
	Text     string            `json:"text"`
	Status   string            `json:"status"` // discharged | failed | unknown | error
	Backend  string            `json:"backend,omitempty"`
	TimeS    float64           `json:"time_s"`
	Solvers  []string          `json:"solvers,omitempty"`
	Reason   string            `json:"reason,omitempty"`
	Model    map[string]string `json:"model,omitempty"`
	SMTFile  string            `json:"smt_file,omitempty"`
	SMTBytes int               `json:"smt_bytes,omitempty"`
	Trivial  bool              `json:"trivial,omitempty"`
}

type FuncReport struct {
	Func       string   `json:"func"`
	Error      string   `json:"error,omitempty"`
	Inlined    []string `json:"inlined,omitempty"`
	UsedSpecs  []string `json:"assumed_callee_contracts,omitempty"`
	UsedExtern []string `json:"library_models,omitempty"`
	Notes      []string `json:"notes,omitempty"`
	Heaps      []string `json:"heaps_written,omitempty"`
	TypeInvs   []string `json:"type_invariants_assumed_at_reads,omitempty"`
	NObl       int      `json:"obligations"`
	EncodeS    float64  `json:"encode_s"`
}

type Report struct {
	Engine      string        `json:"engine"`
	Property    string        `json:"property"`
	Tier        string        `json:"tier"`
	Functions   []*FuncReport `json:"functions"`
	Obligations []*OblResult  `json:"obligations"`
	Vacuity     []*OblResult  `json:"vacuity"`
	SpecErrors  []string      `json:"spec_errors,omitempty"`
	LoadS       float64       `json:"load_s"`
	SolverS     float64       `json:"solver_s"`
	WallS       float64       `json:"wall_s"`
	Trusted     []string      `json:"trusted"`
}

type CheckOpts struct {
	Prop     string
	Tier     string
	TimeoutS int
	Confirm  bool
	Workers  int
	SMTDir   string
	OnlyFunc string
	Verbose  bool
	Audit    bool
	Diagnose bool
	// obligations listed as known findings: not worth a retry with a larger budget when undecided
	NoRetry map[string]bool
}

func hasProp(props []string, p string) bool {
	for _, x := range props {
		if x == p {
			return true
		}
	}
	return false
}

func specProps(s *FuncSpec) map[string]bool {
	out := map[string]bool{}
	for _, p := range s.SafetyProps {
		out[p] = true
	}
	for _, p := range s.HomeProps {
		out[p] = true
	}
	add := func(cs []*Clause) {
		for _, c := range cs {
			for _, p := range c.Props {
				out[p] = true
			}
		}
	}
	add(s.Requires)
	add(s.Assumes)
	add(s.Ensures)
	add(s.Invariants)
	add(s.AssertCalls)
	for _, l := range s.Loops {
		add(l)
	}
	return out
}

// modelTerms picks constants worth reporting in a counterexample: arguments and loop variables.
func modelTerms(e *Enc, asserts []*smt.Term) []*smt.Term {
	seen := map[int]bool{}
	var out []*smt.Term
	var walk func(t *smt.Term)
	walk = func(t *smt.Term) {
		if seen[t.ID] {
			return
		}
		seen[t.ID] = true
		if t.Op == "const" && t.Sort.Kind != smt.KArray {
			if strings.HasPrefix(t.Name, "arg:") || strings.HasPrefix(t.Name, "loop:") || strings.HasPrefix(t.Name, "r:") || strings.HasPrefix(t.Name, "next.") {
				out = append(out, t)
			}
		}
		for _, a := range t.Args {
			walk(a)
		}
	}
	for _, a := range asserts {
		walk(a)
	}
	sort.Slice(out, func(i, j int) bool { return out[i].ID < out[j].ID })
	if len(out) > 60 {
		out = out[:60]
	}
	return out
}

func (o *Obligation) extraModel() []*smt.Term { return o.Model }

// Check verifies all functions relevant to opts.Prop and returns the report.
func Check(p *Program, opts CheckOpts) *Report {
	start := time.Now()
	rep := &Report{Engine: "govc", Property: opts.Prop, Tier: opts.Tier, LoadS: p.LoadS}
	rep.SpecErrors = append(rep.SpecErrors, p.Contr.Errors...)
	if opts.Workers <= 0 {
		opts.Workers = 5
	}
	if opts.SMTDir == "" {
		d, _ := os.MkdirTemp("", "govc-smt-")
		opts.SMTDir = d
		defer os.RemoveAll(d)
	} else {
		os.MkdirAll(opts.SMTDir, 0o755)
	}
	type job struct {
		e      *Enc
		o      *Obligation
		expect string // "unsat" normally, "sat" for vacuity covers
		res    *OblResult
	}
	var jobs []*job
	var names []string
	for _, n := range p.Contr.Order {
		names = append(names, n)
	}
	trusted := map[string]bool{}
	verifyOne := func(name string, fn *ssa.Function, spec *FuncSpec) {
		fr := &FuncReport{Func: name}
		rep.Functions = append(rep.Functions, fr)
		if fn == nil {
			fr.Error = "contract target missing: no function " + name + " in the loaded packages"
			rep.Obligations = append(rep.Obligations, &OblResult{ID: name + "/target", Kind: "target", Func: name, Status: "failed",
				Text: "function under contract exists", Reason: fr.Error, Props: []string{opts.Prop}})
			return
		}
		t0 := time.Now()
		r := VerifyFunc(p, fn, opts.Prop)
		fr.EncodeS = time.Since(t0).Seconds()
		fr.Inlined, fr.UsedSpecs, fr.UsedExtern, fr.Notes = r.Inlined, r.UsedSpecs, r.UsedExtern, r.Notes
		fr.Heaps = r.Heaps
		fr.TypeInvs = r.TypeInvs
		for _, u := range r.UsedSpecs {
			trusted[u] = true
		}
		for _, in := range r.Inlined {
			p.InlinedSomewhere[in] = true
		}
		if r.Err != "" {
			fr.Error = r.Err
			rep.Obligations = append(rep.Obligations, &OblResult{ID: name + "/encode", Kind: "encode", Func: name, Status: "error",
				Text: "function is inside the supported subset", Reason: r.Err, Props: []string{opts.Prop}})
			return
		}
		for _, o := range r.Obls {
			props := o.Props
			if len(props) == 0 {
				props = spec.SafetyProps
			}
			if len(props) == 0 && o.Kind != "safety" {
				props = spec.HomeProps
			}
			if opts.Prop != "" && opts.Prop != "all" && !hasProp(props, opts.Prop) {
				continue
			}
			fr.NObl++
			or := &OblResult{ID: o.ID, Kind: o.Kind, Props: props, Func: o.Func, Pos: o.Pos, Text: o.Text}
			rep.Obligations = append(rep.Obligations, or)
			if o.Cond.IsTrue() || o.Guard.IsFalse() {
				or.Status = "discharged"
				or.Backend = "generator (trivially valid after simplification)"
				or.Trivial = true
				continue
			}
			jobs = append(jobs, &job{e: r.Enc, o: o, expect: "unsat", res: or})
		}
		// vacuity
		if r.ReqSat != nil {
			or := &OblResult{ID: r.ReqSat.ID, Kind: "vacuity", Func: name, Text: r.ReqSat.Text}
			rep.Vacuity = append(rep.Vacuity, or)
			jobs = append(jobs, &job{e: r.Enc, o: r.ReqSat, expect: "sat", res: or})
		}
		if opts.Tier == "thorough" || len(r.Covers) <= 3 {
			for _, cv := range r.Covers {
				or := &OblResult{ID: cv.ID, Kind: "vacuity", Func: name, Text: cv.Text}
				rep.Vacuity = append(rep.Vacuity, or)
				jobs = append(jobs, &job{e: r.Enc, o: cv, expect: "sat", res: or})
			}
		} else if len(r.Covers) > 0 {
			// quick: the disjunction of all returns is reachable
			e := r.Enc
			var rs []*smt.Term
			for _, cv := range r.Covers {
				rs = append(rs, cv.Guard)
			}
			cv := &Obligation{ID: name + "/vacuity:some-return-reachable", Kind: "vacuity", Func: name, Guard: e.C.Or(rs...), Cond: e.C.False(),
				Text: "some return is reachable under the preconditions (expected sat)"}
			or := &OblResult{ID: cv.ID, Kind: "vacuity", Func: name, Text: cv.Text}
			rep.Vacuity = append(rep.Vacuity, or)
			jobs = append(jobs, &job{e: e, o: cv, expect: "sat", res: or})
		}
	}
	for _, name := range names {
		spec := p.Specs[name]
		if spec.Trusted || strings.HasPrefix(name, "iface:") || strings.HasPrefix(name, "fntype:") || strings.HasPrefix(name, "funcvar:") {
			continue
		}
		if !spec.Verify {
			continue
		}
		if opts.OnlyFunc != "" && opts.OnlyFunc != name {
			continue
		}
		sp := specProps(spec)
		if opts.Prop != "" && opts.Prop != "all" && !sp[opts.Prop] {
			continue
		}
		verifyOne(name, p.Func(name), spec)
	}
	// implementations of contracted function types: every module function whose signature is identical to the type
	// is verified against the type's contract (under the type's preconditions only)
	for _, name := range names {
		spec := p.Specs[name]
		if !strings.HasPrefix(name, "fntype:") || !spec.ImplBySig {
			continue
		}
		if sp := specProps(spec); opts.Prop != "" && opts.Prop != "all" && !sp[opts.Prop] {
			continue
		}
		ft := p.resolveType(strings.TrimPrefix(name, "fntype:"), nil)
		if ft == nil {
			rep.SpecErrors = append(rep.SpecErrors, "implementations: unknown function type "+name)
			continue
		}
		sig, ok := ft.Underlying().(*types.Signature)
		if !ok {
			continue
		}
		n := 0
		for _, fn := range p.moduleFuncs() {
			if isTestFunc(p, fn) || fn.Signature.Recv() != nil || !types.Identical(fn.Signature, sig) {
				continue
			}
			fname := fnName(fn)
			if opts.OnlyFunc != "" && opts.OnlyFunc != fname && opts.OnlyFunc != name {
				continue
			}
			n++
			syn := &FuncSpec{Name: fname, Verify: true, Requires: spec.Requires, Assumes: spec.Assumes, Ensures: spec.Ensures, Macros: spec.Macros, Ghosts: nil,
				ResultNames: spec.ResultNames, ModifiesAll: true, HasModifies: true, Loops: map[int][]*Clause{}, LoopMods: map[int][]string{},
				File: spec.File, Line: spec.Line, SafetyProps: nil, HomeProps: spec.HomeProps}
			if len(spec.ParamNames) > 1 {
				syn.ParamNames = spec.ParamNames[1:] // drop "self" (the function value at a dynamic call site)
			}
			if own := p.Specs[fname]; own != nil {
				// keep the implementation's own loop frames; its loop invariants speak about its own ghosts and are dropped
				// (dropping an invariant drops an assumption and its obligations: sound)
				syn.LoopMods = own.LoopMods
			}
			old, had := p.Specs[fname]
			p.Specs[fname] = syn
			verifyOne(fname, fn, syn)
			if had {
				p.Specs[fname] = old
			} else {
				delete(p.Specs, fname)
			}
		}
		if n == 0 && opts.OnlyFunc == "" {
			rep.Obligations = append(rep.Obligations, &OblResult{ID: name + "/implementations", Kind: "target", Func: name, Status: "failed",
				Text: "at least one function implements the contracted function type", Reason: "no module function has the signature of " + name, Props: []string{opts.Prop}})
		}
	}
	// solver phase. Script generation touches the shared term context of an Enc, so it is done sequentially here.
	type sjob struct {
		j      *job
		script string
	}
	var sjobs []*sjob
	for _, j := range jobs {
		e := j.e
		c := e.C
		asserts := make([]*smt.Term, 0, len(e.Axioms)+2)
		for _, a := range e.Axioms {
			if !j.o.DropAxioms[a.ID] {
				asserts = append(asserts, a)
			}
		}
		asserts = append(asserts, j.o.Guard, c.Not(j.o.Cond))
		var mt []*smt.Term
		if j.expect == "unsat" {
			mt = modelTerms(e, asserts)
			mt = append(mt, j.o.extraModel()...)
		}
		script := c.Script(asserts, mt, "")
		j.res.SMTBytes = len(script)
		sjobs = append(sjobs, &sjob{j, script})
	}
	var wg sync.WaitGroup
	sem := make(chan struct{}, opts.Workers)
	var mu sync.Mutex
	t0 := time.Now()
	for _, sj := range sjobs {
		wg.Add(1)
		sem <- struct{}{}
		go func(sj *sjob) {
			defer wg.Done()
			defer func() { <-sem }()
			j := sj.j
			to := opts.TimeoutS
			confirm := opts.Confirm && j.expect == "unsat"
			if j.expect == "sat" && to > 10 {
				to = 10
			}
			r := smt.Race(opts.SMTDir, j.o.ID, sj.script, to, confirm)
			mu.Lock()
			defer mu.Unlock()
			j.res.TimeS = r.Time
			j.res.Solvers = r.Also
			rep.SolverS += r.Time
			if j.expect == "unsat" {
				switch r.Status {
				case "unsat":
					j.res.Status = "discharged"
					j.res.Backend = r.Solver
				case "sat":
					j.res.Status = "failed"
					j.res.Backend = r.Solver
					j.res.Model = r.Model
					j.res.Reason = "counterexample (sat)"
				default:
					j.res.Status = "unknown"
					j.res.Reason = r.Status + ": " + strings.TrimSpace(r.Output)
				}
			} else {
				switch r.Status {
				case "sat":
					j.res.Status = "discharged"
					j.res.Backend = r.Solver
				case "unsat":
					j.res.Status = "failed"
					j.res.Backend = r.Solver
					j.res.Reason = "VACUOUS: assumptions are contradictory / code unreachable"
				default:
					// could not decide satisfiability of the cover (often quantifiers): not a failure
					j.res.Status = "unknown"
					j.res.Reason = r.Status
				}
			}
		}(sj)
	}
	wg.Wait()
	_ = t0
	// obligations left undecided by the parallel race (solver timeouts under machine load) are retried a few at a
	// time with a four-fold budget before they are reported as unknown
	{
		var retry []*sjob
		for _, sj := range sjobs {
			if sj.j.expect == "unsat" && sj.j.res.Status == "unknown" && !opts.NoRetry[sj.j.o.ID] {
				retry = append(retry, sj)
			}
		}
		if len(retry) > 0 && len(retry) <= 40 {
			sem2 := make(chan struct{}, 4)
			var wg2 sync.WaitGroup
			for _, sj := range retry {
				wg2.Add(1)
				sem2 <- struct{}{}
				go func(sj *sjob) {
					defer wg2.Done()
					defer func() { <-sem2 }()
					r := smt.Race(opts.SMTDir, sj.j.o.ID+".retry", sj.script, 4*opts.TimeoutS, false)
					mu.Lock()
					defer mu.Unlock()
					rep.SolverS += r.Time
					sj.j.res.TimeS += r.Time
					switch r.Status {
					case "unsat":
						sj.j.res.Status, sj.j.res.Backend, sj.j.res.Reason = "discharged", r.Solver+" (retry)", ""
					case "sat":
						sj.j.res.Status, sj.j.res.Backend, sj.j.res.Model, sj.j.res.Reason = "failed", r.Solver, r.Model, "counterexample (sat)"
					}
				}(sj)
			}
			wg2.Wait()
		}
	}
	// development aid: for obligations still unknown, drop every quantified assumption and look for a countermodel;
	// "sat" here means the obligation is most likely unprovable as stated (a missing precondition / invariant),
	// not merely slow. Never used to decide an obligation.
	if opts.Diagnose {
		for _, sj := range sjobs {
			j := sj.j
			if j.expect != "unsat" || j.res.Status != "unknown" {
				continue
			}
			e := j.e
			c := e.C
			var asserts []*smt.Term
			for _, a := range e.Axioms {
				if !e.hasQuant(a) {
					asserts = append(asserts, a)
				}
			}
			asserts = append(asserts, j.o.Guard, c.Not(j.o.Cond))
			r := smt.Race(opts.SMTDir, j.o.ID+".diag", c.Script(asserts, modelTerms(e, asserts), ""), 20, false)
			j.res.Reason = "DIAG(no quantified assumptions)=" + r.Status + "; " + j.res.Reason
		}
	}
	// second pass for refuted obligations: ask for the witness terms (replay input), first with shaping constraints
	for _, sj := range sjobs {
		j := sj.j
		if j.expect != "unsat" || j.res.Status != "failed" || len(j.e.Witness) == 0 {
			continue
		}
		e := j.e
		c := e.C
		var base []*smt.Term
		for _, a := range e.Axioms {
			if !j.o.DropAxioms[a.ID] {
				base = append(base, a)
			}
		}
		base = append(base, j.o.Guard, c.Not(j.o.Cond))
		var wconsts []*smt.Term
		for _, w := range e.Witness {
			k := c.Const("w:"+w.Name, w.T.Sort)
			base = append(base, c.Eq(k, w.T))
			wconsts = append(wconsts, k)
		}
		for pass := 0; pass < 2; pass++ {
			asserts := base
			if pass == 0 {
				if len(e.Shaping) == 0 {
					continue
				}
				asserts = append(append([]*smt.Term{}, base...), e.Shaping...)
			}
			mt := append(modelTerms(e, asserts), wconsts...)
			r := smt.Race(opts.SMTDir, j.o.ID+".witness", c.Script(asserts, mt, ""), opts.TimeoutS, false)
			rep.SolverS += r.Time
			if r.Status == "sat" {
				if j.res.Model == nil {
					j.res.Model = map[string]string{}
				}
				for k, v := range r.Model {
					j.res.Model[k] = v
				}
				if pass == 0 {
					j.res.Model["shaped"] = "true"
				}
				break
			}
		}
	}
	if opts.Audit {
		rep.Obligations = append(rep.Obligations, AuditWriters(p, opts.Prop)...)
	}
	for t := range trusted {
		rep.Trusted = append(rep.Trusted, t)
	}
	sort.Strings(rep.Trusted)
	rep.WallS = time.Since(start).Seconds()
	return rep
}

func (r *Report) Summary() string {
	d, f, u, er := 0, 0, 0, 0
	for _, o := range r.Obligations {
		switch o.Status {
		case "discharged":
			d++
		case "failed":
			f++
		case "unknown":
			u++
		default:
			er++
		}
	}
	return fmt.Sprintf("obligations=%d discharged=%d failed=%d unknown=%d error=%d", len(r.Obligations), d, f, u, er)
}
