package govc

import (
	"fmt"
	"go/ast"
	"go/token"
	"go/types"
	"path/filepath"
	"strings"

	"golang.org/x/tools/go/packages"
	"golang.org/x/tools/go/ssa"
	"golang.org/x/tools/go/ssa/ssautil"

	"verif/internal/smt"
)

// Program is the loaded code plus contracts.
type Program struct {
	Fset             *token.FileSet
	Pkgs             []*packages.Package
	SSA              *ssa.Program
	SSAPkgs          []*ssa.Package
	Specs            map[string]*FuncSpec
	Contr            *Contracts
	Ghosts           map[string]*GhostGlobal
	strLits          map[string]uint64
	immHeaps         []string
	typeIDs          map[string]uint64
	typeByID         map[uint64]types.Type
	funcs            map[string]*ssa.Function
	allPkgs          map[string]*types.Package
	LoadS            float64
	Files            []string
	RepoDir          string
	mapTypes         map[string]*types.Map
	InlinedSomewhere map[string]bool
	Inv              map[string][]*TypeInv // heap name -> type invariants on the values stored there
}

// Load loads the given package patterns from dir with the verif tag, builds SSA and parses contracts.
func Load(dir string, patterns []string, overlay map[string][]byte) (*Program, error) {
	cfg := &packages.Config{
		Mode:       packages.LoadAllSyntax,
		Dir:        dir,
		BuildFlags: []string{"-tags=verif"},
		Overlay:    overlay,
		Tests:      false,
	}
	pkgs, err := packages.Load(cfg, patterns...)
	if err != nil {
		return nil, err
	}
	var errs []string
	packages.Visit(pkgs, nil, func(p *packages.Package) {
		for _, e := range p.Errors {
			errs = append(errs, e.Error())
		}
	})
	if len(errs) > 0 {
		if len(errs) > 10 {
			errs = errs[:10]
		}
		return nil, fmt.Errorf("package errors: %s", strings.Join(errs, "; "))
	}
	prog, spkgs := ssautil.AllPackages(pkgs, ssa.GlobalDebug|ssa.InstantiateGenerics)
	for _, sp := range spkgs {
		if sp != nil {
			sp.Build()
		}
	}
	p := &Program{Fset: pkgs[0].Fset, Pkgs: pkgs, SSA: prog, SSAPkgs: spkgs, strLits: map[string]uint64{}, typeIDs: map[string]uint64{},
		typeByID: map[uint64]types.Type{}, funcs: map[string]*ssa.Function{}, allPkgs: map[string]*types.Package{}, RepoDir: dir}
	packages.Visit(pkgs, nil, func(pk *packages.Package) {
		if pk.Types != nil {
			p.allPkgs[pk.Types.Path()] = pk.Types
		}
	})
	// contract files: zz_verif_contracts*.go in the loaded packages
	var files []string
	for _, pk := range pkgs {
		for _, f := range pk.CompiledGoFiles {
			if strings.HasPrefix(filepath.Base(f), "zz_verif_contracts") {
				files = append(files, f)
			}
		}
	}
	p.Files = files
	// registry of map types (so that modifies clauses can name map heaps before first use)
	p.mapTypes = map[string]*types.Map{}
	for _, pk := range pkgs {
		if pk.TypesInfo == nil {
			continue
		}
		var reg func(t types.Type, depth int)
		reg = func(t types.Type, depth int) {
			if t == nil || depth > 6 {
				return
			}
			switch u := t.Underlying().(type) {
			case *types.Map:
				p.mapTypes[typeStr(u)] = u
				reg(u.Elem(), depth+1)
			case *types.Pointer:
				reg(u.Elem(), depth+1)
			case *types.Slice:
				reg(u.Elem(), depth+1)
			case *types.Struct:
				for i := 0; i < u.NumFields(); i++ {
					reg(u.Field(i).Type(), depth+1)
				}
			}
		}
		for _, tv := range pk.TypesInfo.Types {
			reg(tv.Type, 0)
		}
	}
	p.Contr = ParseContracts(files)
	p.Specs = p.Contr.Specs
	p.Ghosts = p.Contr.Ghosts
	p.InlinedSomewhere = map[string]bool{}
	p.Inv = map[string][]*TypeInv{}
	for i := range p.Contr.TypeInvs {
		ti := &p.Contr.TypeInvs[i]
		switch ti.Kind {
		case "field", "fieldstore":
			hs, err := p.expandHeaps([]string{ti.Path})
			if err != nil || len(hs) != 1 {
				p.Contr.Errors = append(p.Contr.Errors, fmt.Sprintf("%s:%d: typeinv field %s: cannot resolve to one field", ti.File, ti.Line, ti.Path))
				continue
			}
			ti.Heap = hs[0]
			ti.Typ = p.resolveType(ti.Path, nil)
		case "mapval":
			t := p.resolveType(ti.Path, nil)
			if strings.HasPrefix(ti.Path, "var:") {
				// the map type of a package-level variable
				if g := p.lookupGlobal(strings.TrimPrefix(ti.Path, "var:")); g != nil {
					t = g.Type().Underlying().(*types.Pointer).Elem()
				}
			}
			var mt *types.Map
			if t != nil {
				mt, _ = t.Underlying().(*types.Map)
			}
			if mt == nil {
				p.Contr.Errors = append(p.Contr.Errors, fmt.Sprintf("%s:%d: typeinv mapval %s: not a map type", ti.File, ti.Line, ti.Path))
				continue
			}
			ti.Heap = mapHeap(mt)
			ti.Typ = mt.Elem()
		case "cellval":
			t := p.resolveType(ti.Path, nil)
			if t == nil {
				p.Contr.Errors = append(p.Contr.Errors, fmt.Sprintf("%s:%d: typeinv cellval %s: unknown type", ti.File, ti.Line, ti.Path))
				continue
			}
			ti.Heap = cellHeap(t)
			ti.Typ = t
		}
		if ti.Typ == nil {
			p.Contr.Errors = append(p.Contr.Errors, fmt.Sprintf("%s:%d: typeinv %s: cannot determine the value type", ti.File, ti.Line, ti.Path))
			continue
		}
		p.Inv[ti.Heap] = append(p.Inv[ti.Heap], ti)
	}
	// index functions
	for fn := range ssautil.AllFunctions(prog) {
		p.funcs[fnName(fn)] = fn
	}
	return p, nil
}

func (p *Program) Func(name string) *ssa.Function { return p.funcs[name] }

func (p *Program) pkgByQual(q string) *types.Package {
	for path, pk := range p.allPkgs {
		if qual(pk) == q || path == q {
			return pk
		}
	}
	// short name match (last path element) if unique
	var found *types.Package
	for _, pk := range p.allPkgs {
		if pk.Name() == q {
			if found != nil && found != pk {
				// ambiguous: prefer artela-evm packages
				if strings.Contains(pk.Path(), "artela-evm") {
					found = pk
				}
				continue
			}
			found = pk
		}
	}
	return found
}

func (p *Program) u256Type() types.Type {
	pk := p.allPkgs["github.com/holiman/uint256"]
	if pk == nil {
		return nil
	}
	return pk.Scope().Lookup("Int").Type()
}

// resolveType parses a small type syntax: [*|[]]... [pkg.]Name
func (p *Program) resolveType(s string, cur *types.Package) types.Type {
	s = strings.TrimSpace(s)
	if strings.HasPrefix(s, "*") {
		t := p.resolveType(s[1:], cur)
		if t == nil {
			return nil
		}
		return types.NewPointer(t)
	}
	if strings.HasPrefix(s, "[]") {
		t := p.resolveType(s[2:], cur)
		if t == nil {
			return nil
		}
		return types.NewSlice(t)
	}
	switch s {
	case "u256":
		return p.u256Type()
	case "addr":
		return p.allPkgs["github.com/ethereum/go-ethereum/common"].Scope().Lookup("Address").Type()
	case "hash":
		return p.allPkgs["github.com/ethereum/go-ethereum/common"].Scope().Lookup("Hash").Type()
	case "error":
		return types.Universe.Lookup("error").Type()
	case "string":
		return types.Typ[types.String]
	case "bool":
		return types.Typ[types.Bool]
	case "byte", "uint8":
		return types.Typ[types.Uint8]
	case "int":
		return types.Typ[types.Int]
	case "int64":
		return types.Typ[types.Int64]
	case "uint64":
		return types.Typ[types.Uint64]
	case "uint32":
		return types.Typ[types.Uint32]
	}
	if i := strings.LastIndex(s, "."); i >= 0 {
		if pk := p.pkgByQual(s[:i]); pk != nil {
			if o := pk.Scope().Lookup(s[i+1:]); o != nil {
				if tn, ok := o.(*types.TypeName); ok {
					return tn.Type()
				}
			}
		}
		// Type.field : the type of that struct field (used to name map types in binders)
		if st := p.resolveType(s[:i], cur); st != nil {
			if str, ok := st.Underlying().(*types.Struct); ok {
				for k := 0; k < str.NumFields(); k++ {
					if str.Field(k).Name() == s[i+1:] {
						return str.Field(k).Type()
					}
				}
			}
			// Map.elem / Map.key
			if mt, ok := st.Underlying().(*types.Map); ok {
				switch s[i+1:] {
				case "elem":
					return mt.Elem()
				case "key":
					return mt.Key()
				}
			}
		}
		return nil
	}
	if cur != nil {
		if o := cur.Scope().Lookup(s); o != nil {
			if tn, ok := o.(*types.TypeName); ok {
				return tn.Type()
			}
		}
	}
	return nil
}

func (p *Program) lookupGlobal(q string) *ssa.Global {
	i := strings.LastIndex(q, ".")
	if i < 0 {
		return nil
	}
	pk := p.pkgByQual(q[:i])
	if pk == nil {
		return nil
	}
	sp := p.SSA.Package(pk)
	if sp == nil {
		return nil
	}
	if g, ok := sp.Members[q[i+1:]].(*ssa.Global); ok {
		return g
	}
	return nil
}

// localByName resolves a source-level local variable of fr.Fn via DebugRef instructions.
func (e *Enc) localByName(fr *Frame, name string) *SVal {
	var best ssa.Value
	var isAddr bool
	for _, b := range fr.Fn.Blocks {
		for _, ins := range b.Instrs {
			dr, ok := ins.(*ssa.DebugRef)
			if !ok {
				continue
			}
			id, ok := dr.Expr.(*ast.Ident)
			if !ok || id.Name != name {
				continue
			}
			if _, defined := fr.Vals[dr.X]; !defined {
				if _, isConst := dr.X.(*ssa.Const); !isConst {
					continue
				}
			}
			// prefer the address form (variable cell); else the last defined value
			if dr.IsAddr {
				best, isAddr = dr.X, true
				goto done
			}
			best = dr.X
		}
	}
done:
	if best == nil {
		return nil
	}
	v := e.val(fr, best)
	if isAddr {
		pt := best.Type().Underlying().(*types.Pointer)
		return &SVal{Loc: e.locOf(v, best.Type()), Typ: pt.Elem()}
	}
	if v.T == nil {
		return nil
	}
	return &SVal{T: v.T, Typ: best.Type()}
}

var _ = smt.Bool

// immutableHeaps: the field heaps of the fields declared "immutable" in the contract files.
func (p *Program) immutableHeaps() []string {
	if p.immHeaps != nil || len(p.Contr.Immutable) == 0 {
		return p.immHeaps
	}
	hs, err := p.expandHeaps(p.Contr.Immutable)
	if err != nil {
		p.Contr.Errors = append(p.Contr.Errors, "immutable: "+err.Error())
		return nil
	}
	p.immHeaps = hs
	return hs
}
