package govc

import (
	"fmt"
	"go/types"
	"sort"
	"strings"

	"golang.org/x/tools/go/ssa"

	"verif/internal/smt"
)

// ---------- loops ----------

func (e *Enc) loopOrdinal(fn *ssa.Function, header int) int {
	_, _, headers := loopInfo(fn)
	var idx []int
	for h := range headers {
		idx = append(idx, h)
	}
	sort.Ints(idx)
	for i, h := range idx {
		if h == header {
			return i
		}
	}
	return -1
}

// writesOfBlocks: conservative set of heaps written by the instructions of the given blocks.
func (e *Enc) writesOfBlocks(fn *ssa.Function, body map[int]bool, seen map[*ssa.Function]bool) (map[string]bool, bool) {
	out := map[string]bool{}
	all := false
	add := func(t types.Type) {
		for h := range e.heapsOfType(t) {
			out[h] = true
		}
	}
	for _, b := range fn.Blocks {
		if body != nil && !body[b.Index] {
			continue
		}
		for _, ins := range b.Instrs {
			switch ins := ins.(type) {
			case *ssa.Store:
				// find root of FieldAddr chain
				addr := ins.Addr
				path := ""
				for {
					fa, ok := addr.(*ssa.FieldAddr)
					if !ok {
						break
					}
					st := fa.X.Type().Underlying().(*types.Pointer).Elem().Underlying().(*types.Struct)
					path = joinPath(st.Field(fa.Field).Name(), path)
					addr = fa.X
				}
				pt := addr.Type().Underlying().(*types.Pointer).Elem()
				if path != "" && isStruct(pt) {
					for _, l := range leavesOf(pt) {
						if l.Path == path || strings.HasPrefix(l.Path, path+".") {
							out[fieldHeap(pt, l.Path)] = true
						}
					}
				} else {
					add(pt)
				}
			case *ssa.MapUpdate:
				mt := ins.Map.Type().Underlying().(*types.Map)
				out[mapHeap(mt)] = true
				out[mapDomHeap(mt)] = true
			case *ssa.Alloc:
				add(ins.Type().Underlying().(*types.Pointer).Elem())
			case *ssa.MakeSlice:
				add(ins.Type().Underlying().(*types.Slice).Elem())
			case *ssa.MakeMap:
				mt := ins.Type().Underlying().(*types.Map)
				out[mapDomHeap(mt)] = true
			case *ssa.Slice:
				// copy-out of array fields allocates
				if pt, ok := ins.X.Type().Underlying().(*types.Pointer); ok {
					add(pt.Elem())
					if fa, ok := ins.X.(*ssa.FieldAddr); ok {
						_ = fa
						all = true // field havoc: be conservative
					}
				}
			case ssa.CallInstruction:
				cc := ins.Common()
				w, a := e.writesOfCall(cc, seen)
				for h := range w {
					out[h] = true
				}
				if a {
					all = true
				}
			}
		}
	}
	return out, all
}

func (e *Enc) writesOfCall(cc *ssa.CallCommon, seen map[*ssa.Function]bool) (map[string]bool, bool) {
	out := map[string]bool{}
	var name string
	var fn *ssa.Function
	if cc.IsInvoke() {
		name = ifaceMethodName(cc.Value.Type(), cc.Method)
	} else {
		switch v := cc.Value.(type) {
		case *ssa.Builtin:
			switch v.Name() {
			case "append", "copy":
				if st, ok := cc.Args[0].Type().Underlying().(*types.Slice); ok {
					for h := range e.heapsOfType(st.Elem()) {
						out[h] = true
					}
				}
				out["ghost:work"] = true
			case "delete":
				mt := cc.Args[0].Type().Underlying().(*types.Map)
				out[mapDomHeap(mt)] = true
			}
			return out, false
		case *ssa.Function:
			fn = v
			name = fnName(v)
		case *ssa.MakeClosure:
			fn = v.Fn.(*ssa.Function)
			name = fnName(fn)
		default:
			name = "fntype:" + typeStr(cc.Value.Type())
		}
	}
	if _, ok := externModels[name]; ok {
		// models write uint256 cells, byte cells, big ghosts, work
		out[cellHeap(e.u256T())] = true
		out[cellHeap(types.Typ[types.Uint8])] = true
		out["ghost:work"] = true
		out["ghost:bigabs"] = true
		out["ghost:bigneg"] = true
		out["ghost:bigwide"] = true
		if strings.Contains(name, "atomic") {
			return out, true
		}
		return out, false
	}
	if spec, ok := e.P.Specs[name]; ok && (fn == nil || len(fn.Blocks) == 0 || spec.Trusted || spec.Verify || spec.NoInline) {
		mods, err := e.P.expandHeaps(spec.Modifies)
		if err != nil {
			return out, true
		}
		for _, h := range mods {
			out[h] = true
		}
		if spec.Kind == "mutating" {
			out["ghost:statever"] = true
		}
		if spec.Kind == "mutating" || spec.Kind == "purestate" {
			out["ghost:work"] = true
		}
		return out, false
	}
	if fn != nil && len(fn.Blocks) > 0 {
		if seen[fn] {
			return out, true
		}
		seen[fn] = true
		w, a := e.writesOfBlocks(fn, nil, seen)
		delete(seen, fn)
		// anonymous functions inside
		return w, a
	}
	return out, true
}

type loopCtx struct {
	hdr   *loopHdr
	phis  []*ssa.Phi
	ord   int
	pkg   *types.Package
	label string
}

func (e *Enc) loopEnv(fr *Frame, st *State, phiVals map[string]*SVal) *Env {
	top := topFrame(fr)
	spec := fr.spec
	env := e.specEnv(fr, spec, st, fr.Entry, top.Entry.Alloc, fr.Fn.Pkg.Pkg)
	if fr.Fn.Pkg == nil && fr.Fn.Parent() != nil {
		env.pkg = fr.Fn.Parent().Pkg.Pkg
	}
	e.bindParams(env, fr)
	for k, v := range phiVals {
		env.vars[k] = v
	}
	return env
}

func fnPkg(fn *ssa.Function) *types.Package {
	for fn != nil {
		if fn.Pkg != nil {
			return fn.Pkg.Pkg
		}
		fn = fn.Parent()
	}
	return nil
}

func (e *Enc) enterLoop(fr *Frame, b *ssa.BasicBlock, hdr *loopHdr, in *State, back map[[2]int]bool) {
	c := e.C
	ord := e.loopOrdinal(fr.Fn, b.Index)
	var invs []*Clause
	var loopMods []string
	if fr.spec != nil {
		invs = fr.spec.Loops[ord]
		loopMods = fr.spec.LoopMods[ord]
	}
	// entry values of phis are already in fr.Vals (from mergePreds)
	phiVals := map[string]*SVal{}
	var phis []*ssa.Phi
	for _, ins := range b.Instrs {
		phi, ok := ins.(*ssa.Phi)
		if !ok {
			break
		}
		phis = append(phis, phi)
		if v := fr.Vals[phi]; v != nil && v.T != nil && phi.Comment != "" {
			phiVals[phi.Comment] = &SVal{T: v.T, Typ: phi.Type()}
		}
	}
	// 1. invariants hold on entry
	env := e.loopEnv(fr, in, phiVals)
	for _, inv := range invs {
		t, err := env.EvalBool(inv.Expr)
		if err != nil {
			unsupported("loop %d invariant %s of %s: %v", ord, inv.Label, fnName(fr.Fn), err)
		}
		e.oblige(fr, in, "invariant-entry", fmt.Sprintf("loop%d.%s", ord, inv.Label), "loop invariant holds on entry: "+inv.Src, b.Instrs[0].Pos(), t, inv.Props)
	}
	// 2. havoc
	writes, all := e.writesOfBlocks(fr.Fn, hdr.body, map[*ssa.Function]bool{fr.Fn: true})
	if len(loopMods) > 0 {
		mods, err := e.P.expandHeaps(loopMods)
		if err != nil {
			unsupported("loop modifies: %v", err)
		}
		writes = map[string]bool{}
		for _, h := range mods {
			writes[h] = true
		}
		all = false
	}
	if all {
		unsupported("loop %d in %s calls something with an unknown write set; give 'loop %d modifies ...'", ord, fnName(fr.Fn), ord)
	}
	for h := range writes {
		if strings.HasPrefix(h, "lghost:") {
			continue
		}
		if _, known := e.hsorts[h]; !known {
			if s := e.P.heapSortByName(h); s != nil {
				e.hsorts[h] = s
			} else {
				continue
			}
		}
		e.havocHeap(in, h)
	}
	// local ghosts of the top frame may be assigned by oncall hooks inside the loop: havoc them all
	if top := topFrame(fr); top.spec != nil {
		for _, g := range top.spec.Ghosts {
			e.havocHeap(in, top.ghostName(g.Name))
		}
	}
	e.bumpAlloc(in)
	for _, phi := range phis {
		s := sortOf(phi.Type())
		nv := c.Fresh("loop:"+phi.Comment, s)
		if wf := e.wellFormed(nv, phi.Type(), in); !wf.IsTrue() {
			e.assume(in, wf)
		}
		fr.Vals[phi] = &Val{T: nv}
		if phi.Comment != "" {
			phiVals[phi.Comment] = &SVal{T: nv, Typ: phi.Type()}
		}
		if phi.Comment == "rangeindex" && s.Kind == smt.KBV {
			// built-in invariant of go/ssa's lowering of "range" over a slice: index >= -1 (checked on the back edge)
			e.assume(in, c.And(c.Cmp("bvsge", nv, c.LitI(-1, s.W)), c.Cmp("bvslt", nv, c.LitI(1<<40, s.W))))
		}
	}
	// 3. assume invariants
	env = e.loopEnv(fr, in, phiVals)
	for _, inv := range invs {
		t, err := env.EvalBool(inv.Expr)
		if err != nil {
			unsupported("loop invariant %s: %v", inv.Label, err)
		}
		e.assume(in, t)
	}
}

func (e *Enc) checkBackEdge(fr *Frame, src, header *ssa.BasicBlock, cur *State, hdr *loopHdr) {
	ord := e.loopOrdinal(fr.Fn, header.Index)
	var invs []*Clause
	if fr.spec != nil {
		invs = fr.spec.Loops[ord]
	}
	pi := -1
	for i, p := range header.Preds {
		if p == src {
			pi = i
		}
	}
	st := cur.clone()
	st.Reach = e.C.And(cur.Reach, e.edgeCond(fr, src, header))
	phiVals := map[string]*SVal{}
	for _, ins := range header.Instrs {
		phi, ok := ins.(*ssa.Phi)
		if !ok {
			break
		}
		v := e.val(fr, phi.Edges[pi])
		if v.T != nil && phi.Comment != "" {
			phiVals[phi.Comment] = &SVal{T: v.T, Typ: phi.Type()}
		}
		if phi.Comment == "rangeindex" && v.T != nil && v.T.Sort.Kind == smt.KBV {
			e.oblige(fr, st, "invariant-preserved", fmt.Sprintf("loop%d.auto-rangeindex", ord), "range index stays >= -1", src.Instrs[len(src.Instrs)-1].Pos(),
				e.C.And(e.C.Cmp("bvsge", v.T, e.C.LitI(-1, v.T.Sort.W)), e.C.Cmp("bvslt", v.T, e.C.LitI(1<<40, v.T.Sort.W))), e.Props)
		}
	}
	if len(invs) == 0 {
		return
	}
	env := e.loopEnv(fr, st, phiVals)
	for _, inv := range invs {
		t, err := env.EvalBool(inv.Expr)
		if err != nil {
			unsupported("loop invariant %s: %v", inv.Label, err)
		}
		e.oblige(fr, st, "invariant-preserved", fmt.Sprintf("loop%d.%s", ord, inv.Label), "loop invariant preserved by the body: "+inv.Src, src.Instrs[len(src.Instrs)-1].Pos(), t, inv.Props)
	}
}

// ---------- top-level verification of one function ----------

type FuncResult struct {
	Func       string
	Obls       []*Obligation
	Enc        *Enc
	Err        string // outside subset / generator error
	Covers     []*Obligation
	ReqSat     *Obligation
	Inlined    []string
	UsedSpecs  []string
	UsedExtern []string
	Notes      []string
	Heaps      []string
	TypeInvs   []string
}

// VerifyFunc generates the obligations of fn against its contract.
func VerifyFunc(p *Program, fn *ssa.Function) (res *FuncResult) {
	name := fnName(fn)
	res = &FuncResult{Func: name}
	e := NewEnc(p, fn)
	e.globalsUsed = map[string]bool{}
	res.Enc = e
	defer func() {
		if r := recover(); r != nil {
			if u, ok := r.(*Unsupported); ok {
				res.Err = u.Error()
				res.Obls = e.Obls
				return
			}
			panic(r)
		}
	}()
	c := e.C
	spec := p.Specs[name]
	if spec != nil {
		e.Props = spec.SafetyProps
	}
	st := &State{Reach: c.True(), Heaps: map[string]*smt.Term{}}
	st.Alloc = c.Const("alloc0", smt.BV(64))
	e.Alloc0 = st.Alloc
	e.assume(st, c.Cmp("bvult", st.Alloc, e.bv64(1<<62)))
	var args []*Val
	for _, prm := range fn.Params {
		t := c.Const("arg:"+prm.Name(), sortOf(prm.Type()))
		args = append(args, &Val{T: t})
		if wf := e.wellFormed(t, prm.Type(), st); !wf.IsTrue() {
			e.assume(st, wf)
		}
	}
	var bind []*Val
	for _, fv := range fn.FreeVars {
		t := c.Const("free:"+fv.Name(), sortOf(fv.Type()))
		bind = append(bind, &Val{T: t})
		e.assume(st, e.wellFormed(t, fv.Type(), st))
	}
	pkg := fnPkg(fn)
	// requires
	if spec != nil {
		env := e.specEnv(nil, spec, st, nil, st.Alloc, pkg)
		for i, prm := range fn.Params {
			env.vars[prm.Name()] = &SVal{T: args[i].T, Typ: prm.Type()}
		}
		var reqs []*smt.Term
		for _, r := range spec.Requires {
			t, err := env.EvalBool(r.Expr)
			if err != nil {
				unsupported("requires %s: %v", r.Label, err)
			}
			reqs = append(reqs, t)
			e.assume(st, t)
		}
		// vacuity: the preconditions (with type invariants) are satisfiable
		res.ReqSat = &Obligation{ID: name + "/vacuity:requires-satisfiable", Kind: "vacuity", Func: name, Guard: st.Reach, Cond: c.False(),
			Text: "preconditions are satisfiable (expected sat)"}
	}
	entry := st.clone()
	out, vals := e.encodeBody(fn, args, bind, st, nil, "")
	// covers: each return is reachable
	if e.topFrame != nil {
		for i, r := range e.topFrame.rets {
			res.Covers = append(res.Covers, &Obligation{ID: fmt.Sprintf("%s/vacuity:return-reachable#%d", name, i+1), Kind: "vacuity", Func: name,
				Guard: r.st.Reach, Cond: c.False(), Text: "return block reachable under the preconditions (expected sat)"})
		}
	}
	// ensures
	if spec != nil {
		env := e.specEnv(e.topFrame, spec, out, entry, entry.Alloc, pkg)
		for i, prm := range fn.Params {
			env.vars[prm.Name()] = &SVal{T: args[i].T, Typ: prm.Type()}
		}
		rts := resultTypes(fn.Signature)
		rn := resultNames(spec, fn.Signature)
		for i, n := range rn {
			if i < len(vals) && vals[i].T != nil {
				env.vars[n] = &SVal{T: vals[i].T, Typ: rts[i]}
			} else if i < len(vals) {
				env.vars[n] = &SVal{T: e.valTerm(vals[i]), Typ: rts[i]}
			}
		}
		for _, en := range spec.Ensures {
			t, err := env.EvalBool(en.Expr)
			if err != nil {
				unsupported("ensures %s: %v", en.Label, err)
			}
			e.oblige(nil, out, "ensures", en.Label, en.Src, fn.Pos(), t, en.Props)
		}
		// frame: every heap not listed in modifies is unchanged on pre-existing objects
		if len(spec.Ensures) > 0 || len(spec.Modifies) > 0 {
			mods, err := p.expandHeaps(spec.Modifies)
			if err != nil {
				unsupported("%v", err)
			}
			modset := map[string]bool{}
			for _, m := range mods {
				modset[m] = true
			}
			var names []string
			for h := range out.Heaps {
				names = append(names, h)
			}
			sort.Strings(names)
			for _, h := range names {
				if modset[h] || strings.HasPrefix(h, "lghost:") || h == "ghost:work" {
					continue
				}
				cur := out.Heaps[h]
				init := e.initHeap(h)
				if cur == init {
					continue
				}
				var cond *smt.Term
				hs := e.hsorts[h]
				if h == "ghost:objtype" || h == "ghost:bigabs" || h == "ghost:bigneg" || h == "ghost:bigwide" || (hs.Kind == smt.KArray && hs.Idx.Kind == smt.KBV && hs.Idx.W == 64 && hs.Elem.Kind == smt.KArray) {
					o := c.BoundVar("o", smt.BV(64))
					cond = c.Forall([]*smt.Term{o}, c.Implies(c.Cmp("bvule", o, entry.Alloc), c.Eq(c.Select(cur, o), c.Select(init, o))))
				} else {
					cond = c.Eq(cur, init)
				}
				e.oblige(nil, out, "frame", h, "heap "+h+" is not in the modifies clause and must be unchanged on pre-existing objects", fn.Pos(), cond, spec.SafetyProps)
			}
		}
	}
	// type invariants hold for every object allocated by this activation when it returns
	for i, as := range e.allocSites {
		for _, ti := range p.allocInvs(as.typ) {
			h := e.heap(out, ti.Heap, heapSort(sortOf(ti.Typ)))
			v := c.Select(c.Select(h, as.obj), e.bv64(0))
			g := out.clone()
			g.Reach = c.And(out.Reach, as.guard)
			e.oblige(nil, g, "typeinv", fmt.Sprintf("init:%s@%d", ti.Path, i+1),
				"object allocated at "+e.posOf(as.pos)+" satisfies the type invariant of "+ti.Path+" ("+ti.Pred+") when the function returns", as.pos, e.invTerm(g, ti, v), e.Props)
		}
	}
	e.finalizeImplements()
	res.Obls = e.Obls
	res.TypeInvs = sortedKeys(e.UsedTypeInv)
	res.Inlined = sortedKeys(e.Inlined)
	res.UsedSpecs = sortedKeys(e.UsedSpecs)
	res.UsedExtern = sortedKeys(e.UsedExtern)
	res.Notes = e.Notes
	for h, t := range out.Heaps {
		if _, ok := e.init[h]; !ok || e.init[h] != t {
			res.Heaps = append(res.Heaps, h)
		}
	}
	sort.Strings(res.Heaps)
	return res
}
