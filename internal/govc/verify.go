package govc

import (
	"fmt"
	"go/types"
	"math/big"
	"sort"
	"strings"

	"golang.org/x/tools/go/ssa"

	"verif/internal/smt"
)

// ---------- loops ----------

func (e *Enc) loopOrdinal(fn *ssa.Function, header int) int {
	_, _, headers := loopInfo(fn)
	var idx []int
	for h := range headers {
		idx = append(idx, h)
	}
	sort.Ints(idx)
	for i, h := range idx {
		if h == header {
			return i
		}
	}
	return -1
}

// writesOfBlocks: conservative set of heaps written by the instructions of the given blocks.
func (e *Enc) writesOfBlocks(fn *ssa.Function, body map[int]bool, seen map[*ssa.Function]bool) (map[string]bool, bool) {
	out := map[string]bool{}
	all := false
	add := func(t types.Type) {
		for h := range e.heapsOfType(t) {
			out[h] = true
		}
	}
	for _, b := range fn.Blocks {
		if body != nil && !body[b.Index] {
			continue
		}
		for _, ins := range b.Instrs {
			switch ins := ins.(type) {
			case *ssa.Store:
				// find root of FieldAddr chain
				addr := ins.Addr
				path := ""
				for {
					fa, ok := addr.(*ssa.FieldAddr)
					if !ok {
						break
					}
					st := fa.X.Type().Underlying().(*types.Pointer).Elem().Underlying().(*types.Struct)
					path = joinPath(st.Field(fa.Field).Name(), path)
					addr = fa.X
				}
				pt := addr.Type().Underlying().(*types.Pointer).Elem()
				if path != "" && isStruct(pt) {
					for _, l := range leavesOf(pt) {
						if l.Path == path || strings.HasPrefix(l.Path, path+".") {
							out[fieldHeap(pt, l.Path)] = true
						}
					}
				} else {
					add(pt)
				}
			case *ssa.MapUpdate:
				mt := ins.Map.Type().Underlying().(*types.Map)
				out[mapHeap(mt)] = true
				out[mapDomHeap(mt)] = true
			case *ssa.Convert:
				// []byte(string) allocates and fills a fresh byte object
				if sl, ok := ins.Type().Underlying().(*types.Slice); ok && isString(ins.X.Type()) {
					add(sl.Elem())
				}
			case *ssa.Next:
				if rg, ok := ins.Iter.(*ssa.Range); ok && !ins.IsString {
					cn, sn := iterHeaps(rg)
					out[cn] = true
					out[sn] = true
				}
			case *ssa.Alloc:
				add(ins.Type().Underlying().(*types.Pointer).Elem())
			case *ssa.MakeSlice:
				add(ins.Type().Underlying().(*types.Slice).Elem())
			case *ssa.MakeMap:
				mt := ins.Type().Underlying().(*types.Map)
				out[mapDomHeap(mt)] = true
			case *ssa.Slice:
				// copy-out of array fields allocates
				if pt, ok := ins.X.Type().Underlying().(*types.Pointer); ok {
					add(pt.Elem())
					if fa, ok := ins.X.(*ssa.FieldAddr); ok {
						_ = fa
						all = true // field havoc: be conservative
					}
				}
			case ssa.CallInstruction:
				cc := ins.Common()
				w, a := e.writesOfCall(cc, seen)
				for h := range w {
					out[h] = true
				}
				if a {
					all = true
				}
			}
		}
	}
	return out, all
}

func (e *Enc) writesOfCall(cc *ssa.CallCommon, seen map[*ssa.Function]bool) (map[string]bool, bool) {
	out := map[string]bool{}
	var name string
	var fn *ssa.Function
	if cc.IsInvoke() {
		name = ifaceMethodName(cc.Value.Type(), cc.Method)
	} else {
		switch v := cc.Value.(type) {
		case *ssa.Builtin:
			switch v.Name() {
			case "append", "copy":
				if st, ok := cc.Args[0].Type().Underlying().(*types.Slice); ok {
					for h := range e.heapsOfType(st.Elem()) {
						out[h] = true
					}
				}
				out["ghost:work"] = true
			case "delete":
				mt := cc.Args[0].Type().Underlying().(*types.Map)
				out[mapDomHeap(mt)] = true
			}
			return out, false
		case *ssa.Function:
			fn = v
			name = fnName(v)
		case *ssa.MakeClosure:
			fn = v.Fn.(*ssa.Function)
			name = fnName(fn)
		default:
			name = "fntype:" + typeStr(cc.Value.Type())
		}
	}
	if _, ok := externModels[name]; ok {
		// models write uint256 cells, byte cells, big ghosts, work
		out[cellHeap(e.u256T())] = true
		out[cellHeap(types.Typ[types.Uint8])] = true
		out["ghost:work"] = true
		out["ghost:bigabs"] = true
		out["ghost:bigneg"] = true
		out["ghost:bigwide"] = true
		if strings.Contains(name, "atomic") {
			return out, true
		}
		return out, false
	}
	if spec, ok := e.P.Specs[name]; ok && (fn == nil || len(fn.Blocks) == 0 || spec.Trusted || spec.Verify || spec.NoInline) {
		if spec.ModifiesAll {
			return out, true
		}
		mods, err := e.P.expandHeaps(spec.Modifies)
		if err != nil {
			return out, true
		}
		for _, h := range mods {
			out[h] = true
		}
		if spec.Kind == "mutating" {
			out["ghost:statever"] = true
		}
		if spec.Kind == "mutating" || spec.Kind == "purestate" {
			out["ghost:work"] = true
		}
		return out, false
	}
	if fn != nil && len(fn.Blocks) > 0 {
		if seen[fn] {
			return out, true
		}
		seen[fn] = true
		w, a := e.writesOfBlocks(fn, nil, seen)
		delete(seen, fn)
		// anonymous functions inside
		return w, a
	}
	return out, true
}

// calleeNames collects the names (as used for contract lookup) of everything called from the given blocks,
// transitively through callees that would be inlined. "?" stands for an unknown callee.
func (e *Enc) calleeNames(fn *ssa.Function, body map[int]bool, out map[string]bool, seen map[*ssa.Function]bool) {
	for _, b := range fn.Blocks {
		if body != nil && !body[b.Index] {
			continue
		}
		for _, ins := range b.Instrs {
			ci, ok := ins.(ssa.CallInstruction)
			if !ok {
				continue
			}
			cc := ci.Common()
			if cc.IsInvoke() {
				out[ifaceMethodName(cc.Value.Type(), cc.Method)] = true
				continue
			}
			var callee *ssa.Function
			switch v := cc.Value.(type) {
			case *ssa.Builtin:
				continue
			case *ssa.Function:
				callee = v
			case *ssa.MakeClosure:
				callee = v.Fn.(*ssa.Function)
			default:
				// closure stored in a local: look for the MakeClosure feeding it; otherwise unknown
				out["fntype:"+typeStr(cc.Value.Type())] = true
				if ld, ok := cc.Value.(*ssa.UnOp); ok {
					if g, ok := ld.X.(*ssa.Global); ok {
						out["funcvar:"+qual(g.Pkg.Pkg)+"."+g.Name()] = true
						continue
					}
				}
				// anonymous functions of the enclosing function may be called through locals
				for _, af := range fn.AnonFuncs {
					if !seen[af] {
						seen[af] = true
						out[fnName(af)] = true
						e.calleeNames(af, nil, out, seen)
					}
				}
				continue
			}
			out[fnName(callee)] = true
			if seen[callee] || len(callee.Blocks) == 0 || !e.P.inModule(callee) {
				continue
			}
			seen[callee] = true
			e.calleeNames(callee, nil, out, seen)
		}
	}
}

// topModset: expanded modifies clause of the function under verification (nil if it has no frame obligation).
func (e *Enc) topModset(fr *Frame) map[string]bool {
	top := topFrame(fr)
	if top.spec == nil || top.spec.ModifiesAll || !top.spec.HasModifies {
		return nil
	}
	mods, err := e.P.expandHeaps(top.spec.Modifies)
	if err != nil {
		return nil
	}
	out := map[string]bool{}
	for _, m := range mods {
		out[m] = true
	}
	return out
}

func (e *Enc) twoLevel(h string) bool {
	hs := e.hsorts[h]
	return hs != nil && hs.Kind == smt.KArray && hs.Idx.Kind == smt.KBV && hs.Idx.W == 64 && hs.Elem.Kind == smt.KArray
}

// frameCond: every object that existed at function entry has its entry content in heap h.
func (e *Enc) frameCond(cur *smt.Term, h string) *smt.Term {
	c := e.C
	o := c.BoundVar("o", smt.BV(64))
	return c.Forall([]*smt.Term{o}, c.Implies(c.Cmp("bvule", o, e.Alloc0), c.Eq(c.Select(cur, o), c.Select(e.initHeap(h), o))))
}

// isAccumulator: a slice-typed header phi all of whose in-loop incoming values are append(phi, ...) results.
func (e *Enc) isAccumulator(phi *ssa.Phi, body map[int]bool) bool {
	if _, ok := phi.Type().Underlying().(*types.Slice); !ok {
		return false
	}
	b := phi.Block()
	n := 0
	for i, ed := range phi.Edges {
		if !body[b.Preds[i].Index] {
			continue
		}
		n++
		call, ok := ed.(*ssa.Call)
		if !ok {
			return false
		}
		bi, ok := call.Call.Value.(*ssa.Builtin)
		if !ok || bi.Name() != "append" || len(call.Call.Args) == 0 || call.Call.Args[0] != ssa.Value(phi) {
			return false
		}
	}
	return n > 0
}

type heapWrite struct {
	guard *smt.Term
	obj   *smt.Term
}

// peelStores decomposes t as a chain of stores (and ite merges) over base. ok=false if t is not of that shape
// (e.g. the heap was replaced by a fresh constant when a callee contract was applied).
func (e *Enc) peelStores(t, base, guard *smt.Term) ([]heapWrite, bool) {
	var out []heapWrite
	steps := 0
	var rec func(t, guard *smt.Term) bool
	rec = func(t, guard *smt.Term) bool {
		steps++
		if steps > 4000 {
			return false
		}
		for {
			if t == base {
				return true
			}
			switch t.Op {
			case "store":
				out = append(out, heapWrite{guard, t.Args[1]})
				t = t.Args[0]
				continue
			case "ite":
				if !rec(t.Args[1], e.C.And(guard, t.Args[0])) {
					return false
				}
				return rec(t.Args[2], e.C.And(guard, e.C.Not(t.Args[0])))
			}
			return false
		}
	}
	if !rec(t, guard) {
		return nil, false
	}
	return out, true
}

type loopFrame struct {
	heap   string
	entry  *smt.Term   // heap value at loop entry
	alloc  *smt.Term   // allocation counter at loop entry
	except []*smt.Term // objects the loop may write
}

func (e *Enc) loopFrameCond(cur *smt.Term, lf loopFrame) *smt.Term {
	c := e.C
	o := c.BoundVar("o", smt.BV(64))
	g := []*smt.Term{c.Cmp("bvule", o, lf.alloc), c.Ne(o, e.bv64(0))}
	for _, x := range lf.except {
		if x.IsLit() && x.Val.Sign() == 0 {
			continue
		}
		g = append(g, c.Ne(o, x))
	}
	return c.Forall([]*smt.Term{o}, c.Implies(c.And(g...), c.Eq(c.Select(cur, o), c.Select(lf.entry, o))))
}

type outerObj struct {
	obj   *smt.Term
	heaps map[string]bool
}

// loopOuterObjects: objects of pointer / slice values that are defined outside the loop body and used inside it,
// plus the loop-entry values of pointer / slice phis of the header, with the heaps their pointees live in.
func (e *Enc) loopOuterObjects(fr *Frame, body map[int]bool) []outerObj {
	var out []outerObj
	seen := map[ssa.Value]bool{}
	add := func(v ssa.Value) {
		if v == nil || seen[v] {
			return
		}
		seen[v] = true
		var elem types.Type
		isSlice := false
		switch u := v.Type().Underlying().(type) {
		case *types.Pointer:
			elem = u.Elem()
		case *types.Slice:
			elem = u.Elem()
			isSlice = true
		default:
			return
		}
		val, ok := fr.Vals[v]
		if !ok {
			switch v.(type) {
			case *ssa.Global, *ssa.Const:
				val = e.val(fr, v)
			default:
				return
			}
		}
		var obj *smt.Term
		switch {
		case val.Loc != nil:
			obj = e.ptrObj(val.Loc.Base)
		case val.T == nil:
			return
		case isSlice:
			obj = e.slObj(val.T)
		default:
			obj = e.ptrObj(val.T)
		}
		hs := map[string]bool{}
		for h := range e.heapsOfType(elem) {
			hs[h] = true
		}
		if val.Loc != nil && val.Loc.Root != nil {
			for h := range e.heapsOfType(val.Loc.Root) {
				hs[h] = true
			}
		}
		// big.Int ghosts and map heaps are keyed by object too
		if isOpaqueStructT(elem) {
			hs["ghost:bigabs"], hs["ghost:bigneg"], hs["ghost:bigwide"] = true, true, true
		}
		out = append(out, outerObj{obj: obj, heaps: hs})
	}
	definedInside := func(v ssa.Value) bool {
		if ins, ok := v.(ssa.Instruction); ok && ins.Block() != nil && ins.Parent() == fr.Fn {
			return body[ins.Block().Index]
		}
		return false
	}
	for _, b := range fr.Fn.Blocks {
		if !body[b.Index] {
			continue
		}
		for _, ins := range b.Instrs {
			if phi, ok := ins.(*ssa.Phi); ok {
				// loop-carried values: the entry value is already bound to the phi at this point (mergePreds)
				for i, ed := range phi.Edges {
					if !body[b.Preds[i].Index] {
						add(ed)
					}
				}
				continue
			}
			for _, op := range ins.Operands(nil) {
				if *op == nil || definedInside(*op) {
					continue
				}
				add(*op)
			}
		}
	}
	return out
}

type loopCtx struct {
	hdr   *loopHdr
	phis  []*ssa.Phi
	ord   int
	pkg   *types.Package
	label string
}

func (e *Enc) loopEnv(fr *Frame, st *State, phiVals map[string]*SVal) *Env {
	top := topFrame(fr)
	spec := fr.spec
	env := e.specEnv(fr, spec, st, fr.Entry, top.Entry.Alloc, fr.Fn.Pkg.Pkg)
	if fr.Fn.Pkg == nil && fr.Fn.Parent() != nil {
		env.pkg = fr.Fn.Parent().Pkg.Pkg
	}
	e.bindParams(env, fr)
	for k, v := range phiVals {
		env.vars[k] = v
	}
	return env
}

func fnPkg(fn *ssa.Function) *types.Package {
	for fn != nil {
		if fn.Pkg != nil {
			return fn.Pkg.Pkg
		}
		fn = fn.Parent()
	}
	return nil
}

func (e *Enc) enterLoop(fr *Frame, b *ssa.BasicBlock, hdr *loopHdr, in *State, back map[[2]int]bool) {
	c := e.C
	ord := e.loopOrdinal(fr.Fn, b.Index)
	var invs []*Clause
	var loopMods []string
	if fr.spec != nil {
		invs = e.activeClauses(fr.spec.Loops[ord])
		loopMods = fr.spec.LoopMods[ord]
	}
	// entry values of phis are already in fr.Vals (from mergePreds)
	phiVals := map[string]*SVal{}
	var phis []*ssa.Phi
	for _, ins := range b.Instrs {
		phi, ok := ins.(*ssa.Phi)
		if !ok {
			break
		}
		phis = append(phis, phi)
		if v := fr.Vals[phi]; v != nil && v.T != nil && phi.Comment != "" {
			phiVals[phi.Comment] = &SVal{T: v.T, Typ: phi.Type()}
		}
	}
	// 1. invariants hold on entry
	if e.loopAlloc == nil {
		e.loopAlloc = map[*ssa.BasicBlock]*smt.Term{}
	}
	e.loopAlloc[b] = in.Alloc
	env := e.loopEnv(fr, in, phiVals)
	env.loopAlloc = in.Alloc
	for _, inv := range invs {
		t, err := env.EvalBool(inv.Expr)
		if err != nil {
			unsupported("loop %d invariant %s of %s: %v", ord, inv.Label, fnName(fr.Fn), err)
		}
		e.oblige(fr, in, "invariant-entry", fmt.Sprintf("loop%d.%s", ord, inv.Label), "loop invariant holds on entry: "+inv.Src, b.Instrs[0].Pos(), t, inv.Props)
	}
	// 2. havoc
	writes, all := e.writesOfBlocks(fr.Fn, hdr.body, map[*ssa.Function]bool{fr.Fn: true})
	star := all
	for _, m := range loopMods {
		if strings.TrimSpace(m) == "*" {
			star = true
		}
	}
	if star {
		// the body calls something that may write any heap ("modifies *", or a callee with an unknown write set): every
		// heap, touched so far or not, is unconstrained at the loop head; only the stated invariants survive
		e.havocAll(in, fr)
		writes, all, loopMods = map[string]bool{}, false, nil
		e.note("loop %d of %s: every heap havocked at the loop head (the body may write any heap)", ord, fnName(fr.Fn))
	}
	if len(loopMods) > 0 {
		mods, err := e.P.expandHeaps(loopMods)
		if err != nil {
			unsupported("loop modifies: %v", err)
		}
		writes = map[string]bool{}
		for _, h := range mods {
			writes[h] = true
		}
		all = false
	}
	if all {
		unsupported("loop %d in %s calls something with an unknown write set; give 'loop %d modifies ...'", ord, fnName(fr.Fn), ord)
	}
	// Implicit loop-frame invariant (guessed here, checked on every back edge, so the guess cannot make the
	// proof unsound): in every heap the loop writes, an object that existed at loop entry keeps its loop-entry
	// content unless it is one of the objects the body can name from outside the loop (pointers / slices defined
	// before the loop and used inside it, and the entry values of loop-carried pointers / slices).
	var framed []loopFrame
	cands := e.loopOuterObjects(fr, hdr.body)
	var hnames []string
	for h := range writes {
		hnames = append(hnames, h)
	}
	sort.Strings(hnames)
	for _, h := range hnames {
		if strings.HasPrefix(h, "lghost:") {
			continue
		}
		if _, known := e.hsorts[h]; !known {
			if s := e.P.heapSortByName(h); s != nil {
				e.hsorts[h] = s
			} else {
				continue
			}
		}
		entry := e.heap(in, h, e.hsorts[h])
		e.havocHeap(in, h)
		if h != "ghost:work" && e.twoLevel(h) {
			lf := loopFrame{heap: h, entry: entry, alloc: in.Alloc}
			for _, cd := range cands {
				if cd.heaps[h] {
					lf.except = append(lf.except, cd.obj)
				}
			}
			framed = append(framed, lf)
			e.assume(in, e.loopFrameCond(in.Heaps[h], lf))
			if e.loopHead == nil {
				e.loopHead = map[*ssa.BasicBlock]map[string]*smt.Term{}
			}
			if e.loopHead[b] == nil {
				e.loopHead[b] = map[string]*smt.Term{}
			}
			e.loopHead[b][h] = in.Heaps[h]
		}
	}
	if e.loopFramed == nil {
		e.loopFramed = map[*ssa.BasicBlock][]loopFrame{}
	}
	e.loopFramed[b] = framed
	// local ghosts of the top frame may be assigned by oncall hooks inside the loop: havoc those whose hook
	// pattern matches a callee reachable from the loop body
	if top := topFrame(fr); top.spec != nil && len(top.spec.Ghosts) > 0 {
		names := map[string]bool{}
		e.calleeNames(fr.Fn, hdr.body, names, map[*ssa.Function]bool{fr.Fn: true})
		assigned := map[string]bool{}
		for _, oc := range top.spec.OnCalls {
			hit := false
			for n := range names {
				if n == "?" || matchCallee(oc.Callee, n) {
					hit = true
					break
				}
			}
			if hit {
				for _, as := range oc.Assigns {
					assigned[as.Name] = true
				}
			}
		}
		for _, g := range top.spec.Ghosts {
			if assigned[g.Name] {
				e.havocHeap(in, top.ghostName(g.Name))
			}
		}
	}
	e.bumpAlloc(in)
	entryVals := map[*ssa.Phi]*smt.Term{}
	for _, phi := range phis {
		if v := fr.Vals[phi]; v != nil && v.T != nil {
			entryVals[phi] = v.T
		}
	}
	if e.phiEntry == nil {
		e.phiEntry = map[*ssa.Phi]*smt.Term{}
	}
	for k, v := range entryVals {
		e.phiEntry[k] = v
	}
	for _, phi := range phis {
		s := sortOf(phi.Type())
		nv := c.Fresh("loop:"+phi.Comment, s)
		if e.isAccumulator(phi, hdr.body) {
			// an append-accumulator that starts at offset 0 stays at offset 0 (append writes in place or returns a
			// fresh base slice); built in as a literal so that element terms carry no symbolic offset. Checked on
			// every back edge.
			if ev := entryVals[phi]; ev != nil && e.slOff(ev).IsLit() && e.slOff(ev).Val.Sign() == 0 {
				nv = e.mkSlice(e.slObj(nv), e.bv64(0), e.slLen(nv), e.slCap(nv))
				if e.zeroOffPhi == nil {
					e.zeroOffPhi = map[*ssa.Phi]bool{}
				}
				e.zeroOffPhi[phi] = true
			}
		}
		if wf := e.wellFormed(nv, phi.Type(), in); !wf.IsTrue() {
			e.assume(in, wf)
		}
		fr.Vals[phi] = &Val{T: nv}
		if phi.Comment != "" {
			phiVals[phi.Comment] = &SVal{T: nv, Typ: phi.Type()}
		}
		if e.isAccumulator(phi, hdr.body) {
			// built-in invariant of an append-accumulator: the slice still lives in the object it had at loop
			// entry, or in one allocated during the loop (append either writes in place or allocates)
			if ev := entryVals[phi]; ev != nil {
				e.assume(in, c.Or(c.Eq(e.slObj(nv), e.slObj(ev)), c.Cmp("bvugt", e.slObj(nv), e.loopAlloc[b])))
			}
		}
		if phi.Comment == "rangeindex" && s.Kind == smt.KBV {
			// built-in invariant of go/ssa's lowering of "range" over a slice: index >= -1 (checked on the back edge)
			e.assume(in, c.And(c.Cmp("bvsge", nv, c.LitI(-1, s.W)), c.Cmp("bvslt", nv, c.LitI(1<<40, s.W))))
		}
	}
	// 3. assume invariants
	env = e.loopEnv(fr, in, phiVals)
	env.loopAlloc = e.loopAlloc[b]
	for _, inv := range invs {
		t, err := env.EvalBool(inv.Expr)
		if err != nil {
			unsupported("loop invariant %s: %v", inv.Label, err)
		}
		e.assume(in, t)
	}
}

func (e *Enc) checkBackEdge(fr *Frame, src, header *ssa.BasicBlock, cur *State, hdr *loopHdr) {
	ord := e.loopOrdinal(fr.Fn, header.Index)
	var invs []*Clause
	if fr.spec != nil {
		invs = e.activeClauses(fr.spec.Loops[ord])
	}
	pi := -1
	for i, p := range header.Preds {
		if p == src {
			pi = i
		}
	}
	st := cur.clone()
	st.Reach = e.C.And(cur.Reach, e.edgeCond(fr, src, header))
	phiVals := map[string]*SVal{}
	for _, ins := range header.Instrs {
		phi, ok := ins.(*ssa.Phi)
		if !ok {
			break
		}
		v := e.val(fr, phi.Edges[pi])
		if v.T != nil && phi.Comment != "" {
			phiVals[phi.Comment] = &SVal{T: v.T, Typ: phi.Type()}
		}
		if e.isAccumulator(phi, hdr.body) && v.T != nil && e.phiEntry[phi] != nil {
			e.oblige(fr, st, "invariant-preserved", fmt.Sprintf("loop%d.auto-accumulator", ord), "append-accumulator "+phi.Comment+" stays in its entry object or one allocated during the loop", src.Instrs[len(src.Instrs)-1].Pos(),
				e.C.Or(e.C.Eq(e.slObj(v.T), e.slObj(e.phiEntry[phi])), e.C.Cmp("bvugt", e.slObj(v.T), e.loopAlloc[header])), e.Props)
		}
		if e.zeroOffPhi[phi] && v.T != nil {
			e.oblige(fr, st, "invariant-preserved", fmt.Sprintf("loop%d.auto-accumulator-offset", ord), "append-accumulator "+phi.Comment+" stays at offset 0", src.Instrs[len(src.Instrs)-1].Pos(),
				e.C.Eq(e.slOff(v.T), e.bv64(0)), e.Props)
		}
		if phi.Comment == "rangeindex" && v.T != nil && v.T.Sort.Kind == smt.KBV {
			e.oblige(fr, st, "invariant-preserved", fmt.Sprintf("loop%d.auto-rangeindex", ord), "range index stays >= -1", src.Instrs[len(src.Instrs)-1].Pos(),
				e.C.And(e.C.Cmp("bvsge", v.T, e.C.LitI(-1, v.T.Sort.W)), e.C.Cmp("bvslt", v.T, e.C.LitI(1<<40, v.T.Sort.W))), e.Props)
		}
	}
	for _, lf := range e.loopFramed[header] {
		cur, ok := st.Heaps[lf.heap]
		if !ok {
			continue
		}
		cond := e.loopFrameCond(cur, lf)
		if head := e.loopHead[header][lf.heap]; head != nil {
			// quantifier-free form: the heap after the body is a chain of stores over the heap at the loop head, so
			// it suffices that every object stored to was allocated during the loop or is one of the exceptions
			if ws, ok := e.peelStores(cur, head, e.C.True()); ok {
				var cs []*smt.Term
				for _, w := range ws {
					allowed := []*smt.Term{e.C.Cmp("bvugt", w.obj, lf.alloc)}
					for _, x := range lf.except {
						allowed = append(allowed, e.C.Eq(w.obj, x))
					}
					cs = append(cs, e.C.Implies(w.guard, e.C.Or(allowed...)))
				}
				cond = e.C.And(cs...)
			}
		}
		e.oblige(fr, st, "loop-frame", fmt.Sprintf("loop%d.%s", ord, lf.heap), "loop body leaves heap "+lf.heap+" unchanged on every object that existed at loop entry and is not named by the loop from outside",
			src.Instrs[len(src.Instrs)-1].Pos(), cond, e.Props)
	}
	if len(invs) == 0 {
		return
	}
	env := e.loopEnv(fr, st, phiVals)
	env.loopAlloc = e.loopAlloc[header]
	for _, inv := range invs {
		t, err := env.EvalBool(inv.Expr)
		if err != nil {
			unsupported("loop invariant %s: %v", inv.Label, err)
		}
		e.oblige(fr, st, "invariant-preserved", fmt.Sprintf("loop%d.%s", ord, inv.Label), "loop invariant preserved by the body: "+inv.Src, src.Instrs[len(src.Instrs)-1].Pos(), t, inv.Props)
	}
}

// ---------- top-level verification of one function ----------

type FuncResult struct {
	Func       string
	Obls       []*Obligation
	Enc        *Enc
	Err        string // outside subset / generator error
	Covers     []*Obligation
	ReqSat     *Obligation
	Inlined    []string
	UsedSpecs  []string
	UsedExtern []string
	Notes      []string
	Heaps      []string
	TypeInvs   []string
}

// VerifyFunc generates the obligations of fn against its contract.
func VerifyFunc(p *Program, fn *ssa.Function, prop string) (res *FuncResult) {
	name := fnName(fn)
	res = &FuncResult{Func: name}
	e := NewEnc(p, fn)
	e.Prop = prop
	e.globalsUsed = map[string]bool{}
	res.Enc = e
	defer func() {
		if r := recover(); r != nil {
			if u, ok := r.(*Unsupported); ok {
				res.Err = u.Error()
				res.Obls = e.Obls
				return
			}
			panic(r)
		}
	}()
	c := e.C
	spec := p.Specs[name]
	if spec != nil {
		e.Props = spec.SafetyProps
	}
	st := &State{Reach: c.True(), Heaps: map[string]*smt.Term{}}
	st.Alloc = c.Const("alloc0", smt.BV(64))
	e.Alloc0 = st.Alloc
	e.assume(st, c.Cmp("bvult", st.Alloc, e.bv64(1<<62)))
	// the ghost work counter is a 128-bit mathematical counter: it starts far from wrapping
	e.assume(st, c.Cmp("bvult", e.ghost(st, "work", smt.BV(128)), c.Lit(new(big.Int).Lsh(big.NewInt(1), 100), 128)))
	var args []*Val
	for _, prm := range fn.Params {
		t := c.Const("arg:"+prm.Name(), sortOf(prm.Type()))
		args = append(args, &Val{T: t})
		if wf := e.wellFormed(t, prm.Type(), st); !wf.IsTrue() {
			e.assume(st, wf)
		}
	}
	var bind []*Val
	for _, fv := range fn.FreeVars {
		t := c.Const("free:"+fv.Name(), sortOf(fv.Type()))
		bind = append(bind, &Val{T: t})
		e.assume(st, e.wellFormed(t, fv.Type(), st))
	}
	pkg := fnPkg(fn)
	// requires
	if spec != nil {
		env := e.specEnv(nil, spec, st, nil, st.Alloc, pkg)
		for i, prm := range fn.Params {
			env.vars[prm.Name()] = &SVal{T: args[i].T, Typ: prm.Type()}
		}
		var reqs []*smt.Term
		for _, r := range spec.Requires {
			if !e.active(r.Props) {
				continue
			}
			t, err := env.EvalBool(r.Expr)
			if err != nil {
				unsupported("requires %s: %v", r.Label, err)
			}
			reqs = append(reqs, t)
			e.assume(st, t)
		}
		for _, r := range spec.Assumes {
			if !e.active(r.Props) {
				continue
			}
			t, err := env.EvalBool(r.Expr)
			if err != nil {
				unsupported("assume %s: %v", r.Label, err)
			}
			reqs = append(reqs, t)
			e.assume(st, t)
			e.note("ASSUMED, unchecked, at entry of %s: %s: %s", name, r.Label, r.Src)
		}
		for _, r := range spec.Invariants {
			if !e.active(r.Props) {
				continue
			}
			t, err := env.EvalBool(r.Expr)
			if err != nil {
				unsupported("invariant %s: %v", r.Label, err)
			}
			n0 := len(e.Axioms)
			e.assume(st, t)
			// remember which quantified facts came from which entry invariant (proof hints "use:" drop the others)
			if e.entryInvAxioms == nil {
				e.entryInvAxioms = map[int]string{}
			}
			for _, a := range e.Axioms[n0:] {
				e.entryInvAxioms[a.ID] = r.Label
			}
		}
		// entry-closure axioms: a pointer found in heap h at function entry refers to an object that existed at entry
		if hs, err := p.expandHeaps(spec.Closure); err == nil {
			for _, h := range hs {
				if strings.HasPrefix(h, "mapdom:") {
					continue
				}
				e.ensureHeapKnown(h)
				srt := e.hsorts[h]
				if srt.Kind != smt.KArray || srt.Elem.Kind != smt.KArray || srt.Elem.Elem.Kind != smt.KBV || srt.Elem.Elem.W != PtrW {
					unsupported("closure %s: not a heap of pointers", h)
				}
				o := c.BoundVar("co", srt.Idx)
				k := c.BoundVar("ck", srt.Elem.Idx)
				e.Axioms = append(e.Axioms, c.Forall([]*smt.Term{o, k}, c.Cmp("bvule", e.ptrObj(c.Select(c.Select(e.initHeap(h), o), k)), e.Alloc0)))
			}
		} else {
			unsupported("closure: %v", err)
		}
		for _, wd := range spec.Witness {
			sv, err := env.evalAny(wd.Expr)
			if err != nil {
				unsupported("witness %s: %v", wd.Name, err)
			}
			if wd.Bytes == 0 {
				e.addWitness(wd.Name, sv.T)
				continue
			}
			if sv.Typ == nil {
				unsupported("witness-bytes %s: not a byte slice", wd.Name)
			}
			if _, ok := sv.Typ.Underlying().(*types.Slice); !ok {
				unsupported("witness-bytes %s: not a byte slice", wd.Name)
			}
			ln := e.slLen(sv.T)
			e.addWitness(wd.Name+".len", ln)
			e.addWitness(wd.Name+".nil", c.Eq(e.slObj(sv.T), e.bv64(0)))
			e.Shaping = append(e.Shaping, c.Cmp("bvule", ln, e.bv64(uint64(wd.Bytes))))
			arr := e.byteRegion(st, e.slObj(sv.T))
			for i := 0; i < wd.Bytes; i++ {
				e.addWitness(fmt.Sprintf("%s[%d]", wd.Name, i), c.Select(arr, c.BVOp("bvadd", e.slOff(sv.T), e.bv64(uint64(i)))))
			}
		}
		// vacuity: the preconditions (with type invariants) are satisfiable
		res.ReqSat = &Obligation{ID: name + "/vacuity:requires-satisfiable", Kind: "vacuity", Func: name, Guard: st.Reach, Cond: c.False(),
			Text: "preconditions are satisfiable (expected sat)"}
	}
	entry := st.clone()
	out, vals := e.encodeBody(fn, args, bind, st, nil, "")
	// covers: each return is reachable
	if e.topFrame != nil {
		for i, r := range e.topFrame.rets {
			res.Covers = append(res.Covers, &Obligation{ID: fmt.Sprintf("%s/vacuity:return-reachable#%d", name, i+1), Kind: "vacuity", Func: name,
				Guard: r.st.Reach, Cond: c.False(), Text: "return at " + r.pos + " reachable under the preconditions (expected sat)"})
		}
	}
	// ensures
	if spec != nil {
		env := e.specEnv(e.topFrame, spec, out, entry, entry.Alloc, pkg)
		for i, prm := range fn.Params {
			env.vars[prm.Name()] = &SVal{T: args[i].T, Typ: prm.Type()}
		}
		rts := resultTypes(fn.Signature)
		rn := resultNames(spec, fn.Signature)
		for i, n := range rn {
			if i < len(vals) && vals[i].T != nil {
				env.vars[n] = &SVal{T: vals[i].T, Typ: rts[i]}
			} else if i < len(vals) {
				env.vars[n] = &SVal{T: e.valTerm(vals[i]), Typ: rts[i]}
			}
		}
		for _, en := range spec.Ensures {
			if !e.active(en.Props) {
				continue
			}
			if en.Assumed {
				e.note("ASSUMED, unchecked, postcondition of %s exported to its callers: %s: %s", name, en.Label, en.Src)
				continue
			}
			t, err := env.EvalBool(en.Expr)
			if err != nil {
				unsupported("ensures %s: %v", en.Label, err)
			}
			e.oblige(nil, out, "ensures", en.Label, en.Src, fn.Pos(), t, en.Props)
		}
		for _, en := range spec.Invariants {
			if !e.active(en.Props) {
				continue
			}
			t, err := env.EvalBool(en.Expr)
			if err != nil {
				unsupported("invariant %s: %v", en.Label, err)
			}
			n0 := len(e.Obls)
			e.oblige(nil, out, "invariant-reestablished", en.Label, en.Src, fn.Pos(), t, en.Props)
			if len(en.Use) > 0 {
				keep := map[string]bool{en.Label: true}
				for _, u := range en.Use {
					keep[u] = true
				}
				drop := map[int]bool{}
				for id, lab := range e.entryInvAxioms {
					if !keep[lab] {
						drop[id] = true
					}
				}
				for _, o := range e.Obls[n0:] {
					o.DropAxioms = drop
				}
			}
		}
		// frame: every heap not listed in modifies is unchanged on pre-existing objects
		// frame obligations are generated for functions that declare a frame ("modifies ...", "modifies nothing")
		if spec.HasModifies && !spec.ModifiesAll {
			mods, err := p.expandHeaps(spec.Modifies)
			if err != nil {
				unsupported("%v", err)
			}
			modset := map[string]bool{}
			for _, m := range mods {
				modset[m] = true
			}
			var names []string
			for h := range out.Heaps {
				names = append(names, h)
			}
			sort.Strings(names)
			for _, h := range names {
				// ghost:objtype is only ever written at the id of an object allocated by this activation (allocObj)
				if modset[h] || strings.HasPrefix(h, "lghost:") || strings.HasPrefix(h, "iter:") || h == "ghost:work" || h == "ghost:objtype" || (h == "ghost:statever" && spec.Kind == "mutating") {
					continue
				}
				cur := out.Heaps[h]
				init := e.initHeap(h)
				if cur == init {
					continue
				}
				var cond *smt.Term
				hs := e.hsorts[h]
				if h == "ghost:objtype" || h == "ghost:bigabs" || h == "ghost:bigneg" || h == "ghost:bigwide" || (hs.Kind == smt.KArray && hs.Idx.Kind == smt.KBV && hs.Idx.W == 64 && hs.Elem.Kind == smt.KArray) {
					o := c.BoundVar("o", smt.BV(64))
					// object 0 is nil: nothing lives there
					cond = c.Forall([]*smt.Term{o}, c.Implies(c.And(c.Ne(o, e.bv64(0)), c.Cmp("bvule", o, entry.Alloc)), c.Eq(c.Select(cur, o), c.Select(init, o))))
					// quantifier-free form when the final heap is a chain of stores over the entry heap: every object
					// stored to was allocated by this activation
					if ws, ok := e.peelStores(cur, init, c.True()); ok {
						var cs []*smt.Term
						for _, w := range ws {
							cs = append(cs, c.Implies(w.guard, c.Cmp("bvugt", w.obj, entry.Alloc)))
						}
						cond = c.And(cs...)
					}
				} else {
					cond = c.Eq(cur, init)
				}
				e.oblige(nil, out, "frame", h, "heap "+h+" is not in the modifies clause and must be unchanged on pre-existing objects", fn.Pos(), cond, spec.SafetyProps)
			}
		}
	}
	// type invariants hold for every object allocated by this activation when it returns
	for i, as := range e.allocSites {
		for _, ti := range p.allocInvs(as.typ) {
			h := e.heap(out, ti.Heap, heapSort(sortOf(ti.Typ)))
			v := c.Select(c.Select(h, as.obj), e.bv64(0))
			g := out.clone()
			g.Reach = c.And(out.Reach, as.guard)
			e.oblige(nil, g, "typeinv", fmt.Sprintf("init:%s@%d", ti.Path, i+1),
				"object allocated at "+e.posOf(as.pos)+" satisfies the type invariant of "+ti.Path+" ("+ti.Pred+") when the function returns", as.pos, e.invTerm(g, ti, v), e.Props)
		}
	}
	e.finalizeImplements()
	res.Obls = e.Obls
	res.TypeInvs = sortedKeys(e.UsedTypeInv)
	res.Inlined = sortedKeys(e.Inlined)
	res.UsedSpecs = sortedKeys(e.UsedSpecs)
	res.UsedExtern = sortedKeys(e.UsedExtern)
	res.Notes = e.Notes
	for h, t := range out.Heaps {
		if _, ok := e.init[h]; !ok || e.init[h] != t {
			res.Heaps = append(res.Heaps, h)
		}
	}
	sort.Strings(res.Heaps)
	return res
}
