package govc

import (
	"fmt"
	"go/token"
	"go/types"
	"sort"
	"strings"

	"golang.org/x/tools/go/ssa"
)

// Syntactic obligations: whole-package frame / absence facts decided by a scan
// of go/ssa (no solver). Each fact is generated from the current source on every
// run; a violated fact is reported with its position.

type synObl = OblResult

func (p *Program) moduleFuncs() []*ssa.Function {
	var names []string
	for n, fn := range p.funcs {
		if len(fn.Blocks) == 0 || !p.inModule(fn) {
			continue
		}
		names = append(names, n)
	}
	sort.Strings(names)
	out := make([]*ssa.Function, 0, len(names))
	for _, n := range names {
		out = append(out, p.funcs[n])
	}
	return out
}

func (p *Program) pos(ps token.Pos) string {
	if !ps.IsValid() {
		return ""
	}
	q := p.Fset.Position(ps)
	f := q.Filename
	if i := strings.Index(f, "/repo/"); i >= 0 {
		f = f[i+6:]
	}
	return fmt.Sprintf("%s:%d", f, q.Line)
}

func isInit(fn *ssa.Function) bool {
	for fn != nil {
		if fn.Name() == "init" || strings.HasPrefix(fn.Name(), "init#") {
			return true
		}
		fn = fn.Parent()
	}
	return false
}

func isTestFunc(p *Program, fn *ssa.Function) bool {
	ps := fn.Pos()
	if !ps.IsValid() {
		return false
	}
	return strings.HasSuffix(p.Fset.Position(ps).Filename, "_test.go")
}

// rootGlobal follows FieldAddr / IndexAddr chains to a package-level variable.
func rootGlobal(v ssa.Value) *ssa.Global {
	for {
		switch x := v.(type) {
		case *ssa.Global:
			return x
		case *ssa.FieldAddr:
			v = x.X
		case *ssa.IndexAddr:
			v = x.X
		default:
			return nil
		}
	}
}

// loadedFromGlobal: v is the content of a package-level variable (pointer, map or slice held in a global).
func loadedFromGlobal(v ssa.Value) *ssa.Global {
	for {
		switch x := v.(type) {
		case *ssa.UnOp:
			if x.Op == token.MUL {
				if g := rootGlobal(x.X); g != nil {
					return g
				}
			}
			return nil
		case *ssa.FieldAddr:
			v = x.X
		case *ssa.IndexAddr:
			v = x.X
		case *ssa.Slice:
			v = x.X
		case *ssa.ChangeType:
			v = x.X
		default:
			return nil
		}
	}
}

// read-only methods of *uint256.Int (receiver is not assigned)
var u256ReadOnly = map[string]bool{
	"Lt": true, "Gt": true, "Eq": true, "Cmp": true, "IsZero": true, "Sign": true, "Uint64": true, "IsUint64": true, "Uint64WithOverflow": true,
	"Bytes": true, "Bytes32": true, "Bytes20": true, "ToBig": true, "Clone": true, "String": true, "Hex": true, "Dec": true, "LtUint64": true, "GtUint64": true,
	"BitLen": true, "ByteLen": true, "Slt": true, "Sgt": true, "CmpUint64": true, "CmpBig": true, "WriteToSlice": true, "WriteToArray32": true, "WriteToArray20": true,
	"PaddedBytes": true, "MarshalText": true, "MarshalJSON": true, "Format": true, "PrettyDec": true, "Float64": true, "EncodeRLP": true, "Value": true, "MarshalSSZ": true,
}

func globalName(g *ssa.Global) string { return qual(g.Pkg.Pkg) + "." + g.Name() }

// Syntactic dispatches on the check name.
func Syntactic(p *Program, name, prop string) []*OblResult {
	switch name {
	case "no-recover":
		return synNoRecover(p, prop)
	case "package-frame":
		return synPackageFrame(p, prop)
	case "no-goroutines":
		return synNoGoroutines(p, prop)
	case "abort-atomic-only":
		return synAbortAtomic(p, prop)
	case "transfer-only-via-record":
		return synTransferViaRecord(p, prop)
	case "nondeterminism-sources":
		return synNondeterminism(p, prop)
	case "loopvar-escape":
		return synLoopVarEscape(p, prop)
	case "table-closures-capture-values":
		return synTableClosures(p, prop)
	case "immutable-fields":
		return synImmutableFields(p, prop)
	case "jp-flag-writers":
		return synFieldWriters(p, prop, "jp-flag-writers", "vm.EVM", "IsExecuteJP", map[string]bool{"(*vm.EVM).CloseAspectCall": true, "(*vm.EVM).AspectCall": true, "vm.NewEVM": true},
			"the join-point switch EVM.IsExecuteJP is assigned only by CloseAspectCall, AspectCall and NewEVM: nothing else (Reset, SetBlockContext, the interpreter, a frame function) can switch join points on or off behind the host's back")
	case "calltree-encapsulated":
		var out []*OblResult
		allowed := map[string]bool{"(*vm.CallTree).add": true, "(*vm.CallTree).exit": true, "vm.NewCallTree": true}
		for _, f := range []string{"root", "current", "count", "lookup"} {
			out = append(out, synFieldWriters(p, prop, "calltree-encapsulated/CallTree."+f, "vm.CallTree", f, allowed,
				"CallTree."+f+" is written only by add, exit and NewCallTree (the functions that carry the well-formedness invariant)")...)
		}
		for _, f := range []string{"Index", "Parent", "Children"} {
			out = append(out, synFieldWriters(p, prop, "calltree-encapsulated/Call."+f, "vm.Call", f, allowed,
				"Call."+f+" is written only by add (inside this module)")...)
		}
		out = append(out, synMapWriters(p, prop, "calltree-encapsulated/lookup-map", "map[uint64]*vm.Call", allowed, "the index map of the call tree is updated only by add")...)
		return out
	}
	return []*OblResult{{ID: prop + "/syntactic/" + name, Kind: "syntactic", Status: "error", Reason: "unknown syntactic check " + name, Props: []string{prop}}}
}

func synOK(prop, id, text string) *OblResult {
	return &OblResult{ID: prop + "/syntactic/" + id, Kind: "syntactic", Props: []string{prop}, Text: text, Status: "discharged", Backend: "syntactic scan of go/ssa"}
}

func synFail(prop, id, text, pos, why string) *OblResult {
	return &OblResult{ID: prop + "/syntactic/" + id, Kind: "syntactic", Props: []string{prop}, Text: text, Status: "failed", Backend: "syntactic scan of go/ssa", Pos: pos, Reason: why,
		Model: map[string]string{"site": pos, "why": why}}
}

// one obligation per module function would be noise: one obligation per fact, listing offending sites.
func summarize(prop, id, text string, sites []string, scanned int) []*OblResult {
	if len(sites) == 0 {
		o := synOK(prop, id, fmt.Sprintf("%s (scanned %d functions)", text, scanned))
		return []*OblResult{o}
	}
	var out []*OblResult
	for i, s := range sites {
		parts := strings.SplitN(s, "\t", 2)
		why := ""
		if len(parts) == 2 {
			why = parts[1]
		}
		out = append(out, synFail(prop, fmt.Sprintf("%s#%d", id, i+1), text, parts[0], why))
	}
	return out
}

func synNoRecover(p *Program, prop string) []*OblResult {
	var sites []string
	n := 0
	for _, fn := range p.moduleFuncs() {
		if isTestFunc(p, fn) {
			continue
		}
		n++
		for _, b := range fn.Blocks {
			for _, ins := range b.Instrs {
				if c, ok := ins.(ssa.CallInstruction); ok {
					if bi, ok := c.Common().Value.(*ssa.Builtin); ok && bi.Name() == "recover" {
						sites = append(sites, p.pos(ins.Pos())+"\trecover() in "+fnName(fn)+": a panic on the execution path could be swallowed, so 'no panic' would no longer be the whole story")
					}
				}
			}
		}
	}
	return summarize(prop, "no-recover", "no function of vm / tracers/native calls recover(): a Go panic is never swallowed on the execution path", sites, n)
}

func synNoGoroutines(p *Program, prop string) []*OblResult {
	var sites []string
	n := 0
	for _, fn := range p.moduleFuncs() {
		if isTestFunc(p, fn) {
			continue
		}
		n++
		for _, b := range fn.Blocks {
			for _, ins := range b.Instrs {
				switch ins.(type) {
				case *ssa.Go, *ssa.Send, *ssa.Select:
					sites = append(sites, p.pos(ins.Pos())+"\t"+fmt.Sprintf("%T in %s", ins, fnName(fn)))
				}
			}
		}
	}
	return summarize(prop, "no-goroutines", "no function of vm / tracers/native starts a goroutine or communicates over a channel: an EVM instance runs on its caller's goroutine only", sites, n)
}

// synPackageFrame: outside init, no function assigns a package-level variable, inserts into / deletes from a
// package-level map, writes through a package-level array/slice, or calls a receiver-mutating uint256 method on
// a package-level *uint256.Int. (sync.Pool and atomic methods are excluded: they are concurrency-safe by contract.)
func synPackageFrame(p *Program, prop string) []*OblResult {
	var sites []string
	n := 0
	allowed := map[string]bool{}
	for _, fn := range p.moduleFuncs() {
		if isTestFunc(p, fn) || isInit(fn) {
			continue
		}
		n++
		for _, b := range fn.Blocks {
			for _, ins := range b.Instrs {
				switch x := ins.(type) {
				case *ssa.Store:
					if g := rootGlobal(x.Addr); g != nil && !allowed[globalName(g)] {
						sites = append(sites, p.pos(x.Pos())+"\t"+fnName(fn)+" assigns package-level variable "+globalName(g))
					} else if g := loadedFromGlobal(x.Addr); g != nil {
						sites = append(sites, p.pos(x.Pos())+"\t"+fnName(fn)+" writes through the content of package-level variable "+globalName(g))
					}
				case *ssa.MapUpdate:
					if g := loadedFromGlobal(x.Map); g != nil {
						sites = append(sites, p.pos(x.Pos())+"\t"+fnName(fn)+" inserts into package-level map "+globalName(g))
					}
				case ssa.CallInstruction:
					cc := x.Common()
					if bi, ok := cc.Value.(*ssa.Builtin); ok {
						if (bi.Name() == "delete" || bi.Name() == "copy" || bi.Name() == "clear") && len(cc.Args) > 0 {
							if g := loadedFromGlobal(cc.Args[0]); g != nil {
								sites = append(sites, p.pos(x.Pos())+"\t"+fnName(fn)+" "+bi.Name()+"s package-level "+globalName(g))
							}
						}
						continue
					}
					callee := cc.StaticCallee()
					if callee == nil || callee.Signature.Recv() == nil || len(cc.Args) == 0 {
						continue
					}
					rt := callee.Signature.Recv().Type()
					if pt, ok := rt.(*types.Pointer); ok && isU256(pt.Elem()) {
						if u256ReadOnly[callee.Name()] {
							continue
						}
						if g := loadedFromGlobal(cc.Args[0]); g != nil {
							sites = append(sites, p.pos(x.Pos())+"\t"+fnName(fn)+" calls receiver-mutating (*uint256.Int)."+callee.Name()+" on shared package-level constant "+globalName(g))
						} else if g := rootGlobal(cc.Args[0]); g != nil {
							sites = append(sites, p.pos(x.Pos())+"\t"+fnName(fn)+" calls receiver-mutating (*uint256.Int)."+callee.Name()+" on package-level variable "+globalName(g))
						}
					}
				}
			}
		}
	}
	return summarize(prop, "package-frame", "outside init no function of vm / tracers/native assigns, inserts into, deletes from or mutates (through a receiver-assigning uint256 method) any package-level variable: EVM instances share only immutable package data", sites, n)
}

// synAbortAtomic: the abort flag of EVM is only touched through atomic.Bool methods.
func synAbortAtomic(p *Program, prop string) []*OblResult {
	var sites []string
	n, uses := 0, 0
	for _, fn := range p.moduleFuncs() {
		if isTestFunc(p, fn) {
			continue
		}
		n++
		for _, b := range fn.Blocks {
			for _, ins := range b.Instrs {
				fa, ok := ins.(*ssa.FieldAddr)
				if !ok {
					continue
				}
				st := fa.X.Type().Underlying().(*types.Pointer).Elem().Underlying().(*types.Struct)
				f := st.Field(fa.Field)
				if f.Name() != "abort" || !strings.HasSuffix(typeStr(fa.X.Type().Underlying().(*types.Pointer).Elem()), "vm.EVM") {
					continue
				}
				uses++
				if !strings.HasSuffix(typeStr(f.Type()), "atomic.Bool") {
					sites = append(sites, p.pos(fa.Pos())+"\tEVM.abort has type "+typeStr(f.Type())+", not sync/atomic.Bool")
					continue
				}
				for _, r := range *fa.Referrers() {
					ci, ok := r.(ssa.CallInstruction)
					okUse := false
					if ok {
						if cal := ci.Common().StaticCallee(); cal != nil && cal.Signature.Recv() != nil && strings.HasSuffix(typeStr(cal.Signature.Recv().Type()), "atomic.Bool") {
							okUse = true
						}
					}
					if _, isDbg := r.(*ssa.DebugRef); isDbg {
						okUse = true
					}
					if !okUse {
						sites = append(sites, p.pos(r.Pos())+"\tEVM.abort used other than through a sync/atomic.Bool method in "+fnName(fn))
					}
				}
			}
		}
	}
	if uses == 0 {
		sites = append(sites, "\tno use of EVM.abort found: cancellation flag missing")
	}
	return summarize(prop, "abort-atomic-only", "the cancellation flag EVM.abort is a sync/atomic.Bool and is touched only through its methods (Cancel may race with a running loop without a data race)", sites, n)
}

// synTransferViaRecord: the host transfer function is only ever invoked inside (*Tracer).TransferWithRecord,
// and every read of BlockContext.Transfer is passed straight to TransferWithRecord.
func synTransferViaRecord(p *Program, prop string) []*OblResult {
	var sites []string
	n, reads, dyn := 0, 0, 0
	for _, fn := range p.moduleFuncs() {
		if isTestFunc(p, fn) {
			continue
		}
		if !strings.HasPrefix(fnName(fn), "vm.") && !strings.HasPrefix(fnName(fn), "(*vm.") && !strings.HasPrefix(fnName(fn), "(vm.") {
			continue
		}
		n++
		for _, b := range fn.Blocks {
			for _, ins := range b.Instrs {
				switch x := ins.(type) {
				case *ssa.FieldAddr:
					st := x.X.Type().Underlying().(*types.Pointer).Elem().Underlying().(*types.Struct)
					if st.Field(x.Field).Name() != "Transfer" || !strings.HasSuffix(typeStr(st.Field(x.Field).Type()), "vm.TransferFunc") {
						continue
					}
					for _, r := range *x.Referrers() {
						ld, ok := r.(*ssa.UnOp)
						if !ok {
							if _, isDbg := r.(*ssa.DebugRef); isDbg {
								continue
							}
							sites = append(sites, p.pos(r.Pos())+"\tBlockContext.Transfer is written or its address escapes in "+fnName(fn))
							continue
						}
						reads++
						for _, u := range *ld.Referrers() {
							if _, isDbg := u.(*ssa.DebugRef); isDbg {
								continue
							}
							ci, ok := u.(ssa.CallInstruction)
							if !ok || ci.Common().StaticCallee() == nil || fnName(ci.Common().StaticCallee()) != "(*vm.Tracer).TransferWithRecord" {
								sites = append(sites, p.pos(u.Pos())+"\tthe host transfer function is used outside a TransferWithRecord call in "+fnName(fn))
							}
						}
					}
				case ssa.CallInstruction:
					cc := x.Common()
					if cc.IsInvoke() || cc.StaticCallee() != nil {
						continue
					}
					if _, isB := cc.Value.(*ssa.Builtin); isB {
						continue
					}
					if strings.HasSuffix(typeStr(cc.Value.Type()), "vm.TransferFunc") {
						dyn++
						if fnName(fn) != "(*vm.Tracer).TransferWithRecord" {
							sites = append(sites, p.pos(x.Pos())+"\ta TransferFunc value is invoked in "+fnName(fn)+", outside TransferWithRecord: that transfer would leave no balance journal entries")
						}
					}
				}
			}
		}
	}
	if dyn == 0 {
		sites = append(sites, "\tno invocation of a TransferFunc found at all")
	}
	return summarize(prop, "transfer-only-via-record", fmt.Sprintf("every read of BlockContext.Transfer (%d) flows only into (*Tracer).TransferWithRecord and a TransferFunc is invoked only there (%d site)", reads, dyn), sites, n)
}

// synNondeterminism: no wall clock, randomness or pointer-to-integer conversion in vm; every map iteration in an
// Artela-specific function either feeds an order-insensitive sink or is canonicalised by a sort before it can reach a result.
func synNondeterminism(p *Program, prop string) []*OblResult {
	var out []*OblResult
	var sites []string
	n := 0
	banned := []string{"time.Now", "time.Since", "math/rand.", "crypto/rand.", "runtime.NumGoroutine", "os.Getenv", "os.Getpid"}
	for _, fn := range p.moduleFuncs() {
		if isTestFunc(p, fn) || !(strings.Contains(fnName(fn), "vm.")) || strings.Contains(fnName(fn), "runtime.") {
			continue
		}
		n++
		for _, b := range fn.Blocks {
			for _, ins := range b.Instrs {
				switch x := ins.(type) {
				case ssa.CallInstruction:
					if cal := x.Common().StaticCallee(); cal != nil {
						full := cal.String()
						for _, bn := range banned {
							if strings.HasPrefix(full, bn) || strings.Contains(full, "/"+bn) {
								sites = append(sites, p.pos(x.Pos())+"\t"+fnName(fn)+" calls "+full)
							}
						}
					}
				case *ssa.Convert:
					if bt, ok := x.Type().Underlying().(*types.Basic); ok && bt.Kind() == types.Uintptr {
						if _, isPtr := x.X.Type().Underlying().(*types.Basic); isPtr && x.X.Type().Underlying().(*types.Basic).Kind() == types.UnsafePointer {
							sites = append(sites, p.pos(x.Pos())+"\t"+fnName(fn)+" converts a pointer to an integer")
						}
					}
				}
			}
		}
	}
	out = append(out, summarize(prop, "nondeterminism-sources/clock-random", "no function of package vm reads the wall clock, a random source, the environment or a pointer value as an integer", sites, n)...)
	// map iteration
	for _, fn := range p.moduleFuncs() {
		if isTestFunc(p, fn) || isInit(fn) {
			continue
		}
		if !(strings.HasPrefix(fnName(fn), "vm.") || strings.HasPrefix(fnName(fn), "(*vm.") || strings.HasPrefix(fnName(fn), "(vm.")) {
			continue
		}
		k := 0
		for _, b := range fn.Blocks {
			for _, ins := range b.Instrs {
				rg, ok := ins.(*ssa.Range)
				if !ok {
					continue
				}
				if _, isMap := rg.X.Type().Underlying().(*types.Map); !isMap {
					continue
				}
				k++
				id := fmt.Sprintf("nondeterminism-sources/map-range/%s#%d", fnName(fn), k)
				text := "the iteration order of the map range at " + p.pos(rg.Pos()) + " in " + fnName(fn) + " cannot reach a result: every slice it builds is sorted before it is returned or stored (or it only feeds order-insensitive sinks)"
				why := mapRangeLeak(p, fn, rg)
				if why == "" {
					out = append(out, synOK(prop, id, text))
				} else {
					o := synFail(prop, id, text, p.pos(rg.Pos()), why)
					o.Func = fnName(fn)
					out = append(out, o)
				}
			}
		}
	}
	return out
}

// mapRangeLeak returns "" if the order of the iteration cannot be observed. Rule (conservative): inside the loop the
// iteration variables may flow only into (a) append to a local slice variable, (b) map inserts / lookups, (c) comparisons
// and arithmetic feeding those; and every local slice appended to in the loop must be passed to a sort function
// (sort.Slice, sort.SliceStable, sort.Strings, sort.Ints, slices.Sort*, or a module function whose name starts with "sort")
// in a block that dominates every return of the function.
func mapRangeLeak(p *Program, fn *ssa.Function, rg *ssa.Range) string {
	// blocks of the loop: those dominated by the block holding the Next and reaching it again
	var next *ssa.Next
	for _, r := range *rg.Referrers() {
		if nx, ok := r.(*ssa.Next); ok {
			next = nx
		}
	}
	if next == nil {
		return ""
	}
	_, _, headers := loopInfo(fn)
	var body map[int]bool
	for _, h := range headers {
		if h.body[next.Block().Index] {
			if body == nil || len(h.body) < len(body) {
				body = h.body
			}
		}
	}
	if body == nil {
		return "cannot determine the loop body"
	}
	// slices appended to inside the loop: Allocs (cells) stored with an append result, or phis
	tainted := map[ssa.Value]bool{}
	var appendSites []ssa.Instruction
	for _, b := range fn.Blocks {
		if !body[b.Index] {
			continue
		}
		for _, ins := range b.Instrs {
			switch x := ins.(type) {
			case *ssa.Call:
				if bi, ok := x.Call.Value.(*ssa.Builtin); ok && bi.Name() == "append" {
					tainted[x] = true
					appendSites = append(appendSites, x)
				} else if bi, ok := x.Call.Value.(*ssa.Builtin); ok {
					_ = bi
				} else {
					cal := x.Call.StaticCallee()
					name := "dynamic call"
					if cal != nil {
						name = cal.String()
					}
					// calls inside an order-dependent loop: allowed only for pure conversions
					if cal == nil || !(strings.HasPrefix(name, "bytes.") || strings.HasPrefix(name, "strings.") || strings.HasPrefix(name, "strconv.") || name == "fmt.Sprintf" || name == "fmt.Sprint") {
						return "call of " + name + " inside the map iteration at " + p.pos(x.Pos()) + " may observe the order"
					}
				}
			case *ssa.Store:
				if _, isAlloc := x.Addr.(*ssa.Alloc); !isAlloc {
					if ia, isIdx := x.Addr.(*ssa.IndexAddr); isIdx {
						// element of a local array (the varargs array of append / Sprintf): harmless
						if al, ok := ia.X.(*ssa.Alloc); ok {
							if _, isArr := al.Type().Underlying().(*types.Pointer).Elem().Underlying().(*types.Array); isArr {
								continue
							}
						}
						// element of a slice: the slice now carries the iteration order
						if _, isSl := ia.X.Type().Underlying().(*types.Slice); isSl {
							tainted[ia.X] = true
							appendSites = append(appendSites, x)
							continue
						}
					}
					return "store to non-local memory inside the map iteration at " + p.pos(x.Pos())
				}
			case *ssa.Return:
				return "return from inside the map iteration at " + p.pos(x.Pos()) + " selects an order-dependent element"
			case *ssa.Send, *ssa.Go, *ssa.Defer:
				return "effect inside the map iteration at " + p.pos(x.Pos())
			}
		}
	}
	if len(appendSites) == 0 {
		return ""
	}
	// propagate taint through phis / stores to allocs / loads, function-wide
	changed := true
	cells := map[ssa.Value]bool{}
	for changed {
		changed = false
		for _, b := range fn.Blocks {
			for _, ins := range b.Instrs {
				switch x := ins.(type) {
				case *ssa.Phi:
					if !tainted[x] {
						for _, e := range x.Edges {
							if tainted[e] {
								tainted[x] = true
								changed = true
								break
							}
						}
					}
				case *ssa.Store:
					if tainted[x.Val] && !cells[x.Addr] {
						cells[x.Addr] = true
						changed = true
					}
				case *ssa.UnOp:
					if x.Op == token.MUL && cells[x.X] && !tainted[x] {
						tainted[x] = true
						changed = true
					}
				case *ssa.Slice:
					if tainted[x.X] && !tainted[x] {
						tainted[x] = true
						changed = true
					}
				case *ssa.ChangeType:
					if tainted[x.X] && !tainted[x] {
						tainted[x] = true
						changed = true
					}
				case *ssa.MakeInterface:
					if tainted[x.X] && !tainted[x] {
						tainted[x] = true
						changed = true
					}
				case *ssa.Call:
					if bi, ok := x.Call.Value.(*ssa.Builtin); ok && bi.Name() == "append" && len(x.Call.Args) > 0 && tainted[x.Call.Args[0]] && !tainted[x] {
						tainted[x] = true
						changed = true
					}
				}
			}
		}
	}
	// find sort calls on a tainted value
	var sortBlocks []*ssa.BasicBlock
	for _, b := range fn.Blocks {
		if body[b.Index] {
			continue
		}
		for _, ins := range b.Instrs {
			c, ok := ins.(*ssa.Call)
			if !ok {
				continue
			}
			cal := c.Call.StaticCallee()
			if cal == nil {
				continue
			}
			nm := cal.String()
			isSort := strings.HasPrefix(nm, "sort.Slice") || nm == "sort.Strings" || nm == "sort.Ints" || nm == "sort.Sort" || nm == "sort.Stable" || strings.HasPrefix(nm, "slices.Sort")
			if !isSort {
				continue
			}
			for _, a := range c.Call.Args {
				if tainted[a] {
					sortBlocks = append(sortBlocks, b)
				}
			}
		}
	}
	// every return that returns a tainted value must be dominated by a sort block
	for _, b := range fn.Blocks {
		for _, ins := range b.Instrs {
			switch x := ins.(type) {
			case *ssa.Return:
				for _, r := range x.Results {
					if !tainted[r] {
						continue
					}
					ok := false
					for _, sb := range sortBlocks {
						if sb.Dominates(b) {
							ok = true
						}
					}
					if !ok {
						return "the slice built in map-iteration order is returned at " + p.pos(x.Pos()) + " without being sorted first: callers observe Go's randomised map order"
					}
				}
			case *ssa.Store:
				if tainted[x.Val] {
					if _, isAlloc := x.Addr.(*ssa.Alloc); !isAlloc {
						ok := false
						for _, sb := range sortBlocks {
							if sb.Dominates(b) {
								ok = true
							}
						}
						if !ok {
							return "the slice built in map-iteration order is stored at " + p.pos(x.Pos()) + " without being sorted first"
						}
					}
				}
			}
		}
	}
	return ""
}

// synFieldWriters: every store to field `field` of struct type `typ` (and every composite-literal initialisation is a
// store too in go/ssa) happens in one of the allowed functions.
func synFieldWriters(p *Program, prop, id, typ, field string, allowed map[string]bool, text string) []*OblResult {
	var sites []string
	n, writes := 0, 0
	for _, fn := range p.moduleFuncs() {
		if isTestFunc(p, fn) {
			continue
		}
		n++
		root := fn
		for root.Parent() != nil {
			root = root.Parent()
		}
		for _, b := range fn.Blocks {
			for _, ins := range b.Instrs {
				st, ok := ins.(*ssa.Store)
				if !ok {
					continue
				}
				fa, ok := st.Addr.(*ssa.FieldAddr)
				if !ok {
					continue
				}
				pt, ok := fa.X.Type().Underlying().(*types.Pointer)
				if !ok || typeStr(pt.Elem()) != typ {
					continue
				}
				stt := pt.Elem().Underlying().(*types.Struct)
				if stt.Field(fa.Field).Name() != field {
					continue
				}
				writes++
				if !allowed[fnName(root)] {
					sites = append(sites, p.pos(st.Pos())+"\t"+fnName(fn)+" assigns "+typ+"."+field)
				}
			}
		}
	}
	if writes == 0 {
		sites = append(sites, "\tno write of "+typ+"."+field+" found at all (field renamed or removed?)")
	}
	return summarize(prop, id, fmt.Sprintf("%s (%d writes found)", text, writes), sites, n)
}

func synMapWriters(p *Program, prop, id, mapType string, allowed map[string]bool, text string) []*OblResult {
	var sites []string
	n, writes := 0, 0
	for _, fn := range p.moduleFuncs() {
		if isTestFunc(p, fn) {
			continue
		}
		n++
		root := fn
		for root.Parent() != nil {
			root = root.Parent()
		}
		for _, b := range fn.Blocks {
			for _, ins := range b.Instrs {
				var mt types.Type
				switch x := ins.(type) {
				case *ssa.MapUpdate:
					mt = x.Map.Type()
				case ssa.CallInstruction:
					if bi, ok := x.Common().Value.(*ssa.Builtin); ok && (bi.Name() == "delete" || bi.Name() == "clear") && len(x.Common().Args) > 0 {
						mt = x.Common().Args[0].Type()
					}
				}
				if mt == nil || typeStr(mt.Underlying()) != mapType {
					continue
				}
				writes++
				if !allowed[fnName(root)] {
					sites = append(sites, p.pos(ins.Pos())+"\t"+fnName(fn)+" updates a "+mapType)
				}
			}
		}
	}
	if writes == 0 {
		sites = append(sites, "\tno update of a "+mapType+" found at all")
	}
	return summarize(prop, id, fmt.Sprintf("%s (%d updates found)", text, writes), sites, n)
}

// synLoopVarEscape: a variable that lives across the iterations of a loop (its cell is allocated outside the loop
// body and assigned inside it - e.g. a range variable under the pre-1.22 loop semantics this module's go.mod selects)
// must not have its address passed to a call or stored in memory inside that loop: whatever is built from that
// address (the flat tracer's frames hold pointers into their input) would be overwritten by the next iteration.
func synLoopVarEscape(p *Program, prop string) []*OblResult {
	var sites []string
	n := 0
	for _, fn := range p.moduleFuncs() {
		if isTestFunc(p, fn) || !strings.Contains(fnName(fn), "tracers/native.") {
			continue
		}
		n++
		_, _, headers := loopInfo(fn)
		for _, h := range headers {
			for _, b := range fn.Blocks {
				for _, ins := range b.Instrs {
					al, ok := ins.(*ssa.Alloc)
					if !ok || h.body[b.Index] {
						continue // allocated inside the loop body: one cell per iteration
					}
					storedInLoop, escapesInLoop := false, token.NoPos
					for _, r := range *al.Referrers() {
						rb := r.Block()
						if rb == nil || !h.body[rb.Index] {
							continue
						}
						switch x := r.(type) {
						case *ssa.Store:
							if x.Addr == ssa.Value(al) {
								storedInLoop = true
							} else if x.Val == ssa.Value(al) {
								escapesInLoop = x.Pos()
							}
						case ssa.CallInstruction:
							for _, a := range x.Common().Args {
								if a == ssa.Value(al) {
									escapesInLoop = x.Pos()
								}
							}
						case *ssa.MakeInterface, *ssa.MakeClosure:
							escapesInLoop = r.Pos()
						}
					}
					if storedInLoop && escapesInLoop != token.NoPos {
						sites = append(sites, p.pos(escapesInLoop)+"\tthe address of "+al.Comment+" (a variable reassigned by every iteration of the loop) is handed out inside the loop in "+fnName(fn)+": frames built from it alias one another")
					}
				}
			}
		}
	}
	return summarize(prop, "loopvar-escape", "no function of tracers/native hands out, inside a loop, the address of a variable that the loop reassigns (every emitted frame points into its own copy of the input)", sites, n)
}

// synImmutableFields: every field declared "immutable" in the contract files (kept by a modifies-* havoc) is assigned
// only through an address derived from an object the assigning function has just allocated itself (&T{...} or new(T)),
// i.e. while the object is under construction; and no whole-struct store overwrites an existing object of such a type.
func synImmutableFields(p *Program, prop string) []*OblResult {
	var out []*OblResult
	byType := map[string]map[string]bool{}
	for _, d := range p.Contr.Immutable {
		i := strings.LastIndex(d, ".")
		if i < 0 {
			continue
		}
		t, f := d[:i], d[i+1:]
		if byType[t] == nil {
			byType[t] = map[string]bool{}
		}
		byType[t][f] = true
	}
	var decls []string
	for t, fs := range byType {
		for f := range fs {
			decls = append(decls, t+"."+f)
		}
	}
	sort.Strings(decls)
	perField := map[string][]string{}
	writes := map[string]int{}
	n := 0
	rootAlloc := func(v ssa.Value) bool {
		for {
			switch x := v.(type) {
			case *ssa.FieldAddr:
				v = x.X
			case *ssa.Alloc:
				return true
			default:
				return false
			}
		}
	}
	for _, fn := range p.moduleFuncs() {
		if isTestFunc(p, fn) {
			continue
		}
		n++
		for _, b := range fn.Blocks {
			for _, ins := range b.Instrs {
				st, ok := ins.(*ssa.Store)
				if !ok {
					continue
				}
				// field store
				if fa, ok := st.Addr.(*ssa.FieldAddr); ok {
					// the path of nested FieldAddrs: check every struct level
					cur := fa
					for cur != nil {
						pt, ok := cur.X.Type().Underlying().(*types.Pointer)
						if !ok {
							break
						}
						stt, ok := pt.Elem().Underlying().(*types.Struct)
						if !ok {
							break
						}
						tn := typeStr(pt.Elem())
						fname := stt.Field(cur.Field).Name()
						if byType[tn][fname] {
							key := tn + "." + fname
							writes[key]++
							if !rootAlloc(cur.X) {
								perField[key] = append(perField[key], p.pos(st.Pos())+"\t"+fnName(fn)+" assigns "+key+" of an object it did not allocate")
							}
						}
						next, _ := cur.X.(*ssa.FieldAddr)
						cur = next
					}
					continue
				}
				// whole-struct store through a pointer to a type with immutable fields
				if pt, ok := st.Addr.Type().Underlying().(*types.Pointer); ok {
					tn := typeStr(pt.Elem())
					if len(byType[tn]) > 0 && !rootAlloc(st.Addr) {
						for f := range byType[tn] {
							key := tn + "." + f
							perField[key] = append(perField[key], p.pos(st.Pos())+"\t"+fnName(fn)+" overwrites a whole "+tn)
						}
					}
				}
			}
		}
	}
	for _, key := range decls {
		sites := perField[key]
		if writes[key] == 0 {
			// never assigned field by field: it is set by composite literals only, or not at all; both are fine, but a
			// renamed field must not go unnoticed
			i := strings.LastIndex(key, ".")
			if p.resolveField(key[:i], key[i+1:]) == nil {
				sites = append(sites, "\tno such field "+key+" (renamed or removed?)")
			}
		}
		out = append(out, summarize(prop, "immutable-fields/"+key, fmt.Sprintf("%s is assigned only while its object is under construction in the assigning function (%d field assignments found)", key, writes[key]), sites, n)...)
	}
	if len(decls) == 0 {
		out = append(out, summarize(prop, "immutable-fields", "at least one immutable field is declared", []string{"\tno //@ immutable declaration found"}, n)...)
	}
	return out
}

// resolveField: the field named f of the struct type named t ("pkg.Type"), or nil.
func (p *Program) resolveField(t, f string) *types.Var {
	tt := p.resolveType(t, nil)
	if tt == nil {
		return nil
	}
	st, ok := tt.Underlying().(*types.Struct)
	if !ok {
		return nil
	}
	for i := 0; i < st.NumFields(); i++ {
		if st.Field(i).Name() == f {
			return st.Field(i)
		}
	}
	return nil
}

// synTableClosures: the closures that can sit in the shared, package-level instruction tables (anonymous functions
// with the signature of executionFunc, gasFunc or memorySizeFunc) are called by every EVM instance of the process,
// possibly concurrently. Their captured variables are therefore shared state: each captured variable must hold a plain
// value or a function value (no pointer, slice, map, interface or channel - nothing through which shared memory could be
// reached) and the closure must only read it.
func synTableClosures(p *Program, prop string) []*OblResult {
	var sigs []*types.Signature
	for _, tn := range []string{"vm.executionFunc", "vm.gasFunc", "vm.memorySizeFunc"} {
		if t := p.resolveType(tn, nil); t != nil {
			if sg, ok := t.Underlying().(*types.Signature); ok {
				sigs = append(sigs, sg)
			}
		}
	}
	var sites []string
	n, closures := 0, 0
	var plain func(t types.Type, depth int) bool
	plain = func(t types.Type, depth int) bool {
		if depth > 6 {
			return false
		}
		switch u := t.Underlying().(type) {
		case *types.Basic:
			return u.Kind() != types.UnsafePointer
		case *types.Signature:
			// a function value is immutable; if it is itself a closure of this module it is subject to this same rule
			return true
		case *types.Array:
			return plain(u.Elem(), depth+1)
		case *types.Struct:
			for i := 0; i < u.NumFields(); i++ {
				if !plain(u.Field(i).Type(), depth+1) {
					return false
				}
			}
			return true
		}
		return false
	}
	for _, fn := range p.moduleFuncs() {
		if isTestFunc(p, fn) {
			continue
		}
		n++
		if fn.Parent() == nil || len(fn.FreeVars) == 0 {
			continue
		}
		match := false
		for _, sg := range sigs {
			if types.Identical(fn.Signature, sg) {
				match = true
			}
		}
		if !match {
			continue
		}
		closures++
		for _, fv := range fn.FreeVars {
			vt := fv.Type()
			if pt, ok := vt.Underlying().(*types.Pointer); ok {
				vt = pt.Elem() // go/ssa captures by reference: the free variable is the address of the captured variable
			}
			if !plain(vt, 0) {
				sites = append(sites, p.pos(fn.Pos())+"\t"+fnName(fn)+" captures "+fv.Name()+" of type "+typeStr(vt)+": shared memory reachable from a table closure")
				continue
			}
			if refs := fv.Referrers(); refs != nil {
				for _, r := range *refs {
					switch r := r.(type) {
					case *ssa.UnOp, *ssa.DebugRef:
					case *ssa.Store:
						if r.Addr == ssa.Value(fv) {
							sites = append(sites, p.pos(r.Pos())+"\t"+fnName(fn)+" assigns its captured variable "+fv.Name()+" (shared by every EVM using the table)")
						} else {
							sites = append(sites, p.pos(r.Pos())+"\t"+fnName(fn)+" stores the address of its captured variable "+fv.Name())
						}
					default:
						sites = append(sites, p.pos(r.Pos())+"\t"+fnName(fn)+" uses the address of its captured variable "+fv.Name()+" other than to read it")
					}
				}
			}
		}
	}
	if closures == 0 {
		sites = append(sites, "\tno closure with the signature of executionFunc / gasFunc / memorySizeFunc found (makePush, makeDup, makeSwap, makeLog, makeGasLog ... renamed?)")
	}
	return summarize(prop, "table-closures-capture-values", fmt.Sprintf("every closure that can sit in a shared instruction table captures plain values only and never assigns them (%d closures)", closures), sites, n)
}
