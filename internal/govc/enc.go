package govc

import (
	"fmt"
	"go/token"
	"go/types"
	"sort"
	"strings"

	"golang.org/x/tools/go/ssa"

	"verif/internal/smt"
)

// Val is the symbolic value of an SSA value.
type Val struct {
	T    *smt.Term     // scalar / composite bit-vector or Bool
	Tup  []*Val        // tuple results
	Loc  *Loc          // interior pointer (pointer to a struct field), tracked on the Go side
	Fn   *ssa.Function // statically known function value
	Bind []*Val        // closure bindings (when Fn != nil)
}

// Loc designates a memory location.
type Loc struct {
	Base *smt.Term  // BV128 pointer to the root object (struct, or the cell itself)
	Root types.Type // struct type the path is relative to; nil for a plain cell
	Path string     // flattened field path prefix inside Root ("" = the struct itself)
	Typ  types.Type // type of the content at this location
}

// State is the symbolic machine state at a program point.
type State struct {
	Reach *smt.Term
	Heaps map[string]*smt.Term // heap name -> current array term (absent = initial)
	Alloc *smt.Term            // BV64 allocation counter
	// Gen > 0: everything was havocked ("modifies *") at some point before; a heap that is absent from Heaps then
	// stands for the unconstrained constant of that generation, not for the function-entry heap. (A heap can be
	// absent because no instruction had touched it when the havoc happened.)
	Gen *genNode
}

// genNode: which unconstrained "default heap" generation a state is in. nil = function entry (generation 0); a leaf
// is the generation created by one modifies-* havoc; an inner node is the merge of two paths under condition g.
type genNode struct {
	id   int
	g    *smt.Term
	a, b *genNode
}

func (s *State) clone() *State {
	n := &State{Reach: s.Reach, Alloc: s.Alloc, Gen: s.Gen, Heaps: make(map[string]*smt.Term, len(s.Heaps))}
	for k, v := range s.Heaps {
		n.Heaps[k] = v
	}
	return n
}

// Obligation is one proof obligation: Guard => Cond must be valid.
type Obligation struct {
	ID    string
	Kind  string
	Props []string
	Text  string
	Func  string
	Pos   string
	Guard *smt.Term
	Cond  *smt.Term
	Model []*smt.Term // terms whose model values are wanted on failure
	// quantified entry facts left out of this obligation's query (proof hint "use:"; dropping assumptions is sound)
	DropAxioms map[int]bool
	MNames     []string
}

// Enc encodes one top-level function (with everything it inlines).
type Enc struct {
	C      *smt.Ctx
	P      *Program
	Top    *ssa.Function
	Obls   []*Obligation
	hsorts map[string]*smt.Sort // heap name -> sort
	init   map[string]*smt.Term // initial heap constants
	Axioms []*smt.Term          // global assumptions (always included)
	depth  int
	stack  []*ssa.Function
	// bookkeeping for evidence
	Inlined     map[string]bool
	UsedSpecs   map[string]bool // contracts of callees assumed
	UsedExtern  map[string]bool
	Notes       []string
	Props       []string // default property tags for auto (safety) obligations
	safetyN     map[string]int
	Alloc0      *smt.Term
	ghostDecl   map[string]*smt.Sort
	topFrame    *Frame
	curFn       string
	globalsUsed map[string]bool
	implQueries []implQuery
	allocSites  []allocSite
	UsedTypeInv map[string]bool
	// replay support: named terms whose model values describe a concrete failing input
	Witness        []WitTerm
	Shaping        []*smt.Term // constraints that keep a counterexample executable (lengths <= N)
	quantCache     map[int]bool
	Prop           string // property being checked ("" / "all": every clause is active)
	loopFramed     map[*ssa.BasicBlock][]loopFrame
	sortSeq        int
	genSeq         int
	entryInvAxioms map[int]string
	zeroOffPhi     map[*ssa.Phi]bool
	rangeDom       map[*ssa.Range]*smt.Term // domain of the map at the start of each map iteration
	loopAlloc      map[*ssa.BasicBlock]*smt.Term
	phiEntry       map[*ssa.Phi]*smt.Term
	loopHead       map[*ssa.BasicBlock]map[string]*smt.Term
	callSeq        int
}

// WitTerm is one named witness term.
type WitTerm struct {
	Name string
	T    *smt.Term
}

// active: a clause tagged with properties takes part in this run only if it carries the property being checked.
// Untagged clauses are always active. Dropping assumptions is sound; a clause needed by an obligation must carry its tags.
func (e *Enc) active(props []string) bool {
	if e.Prop == "" || e.Prop == "all" || len(props) == 0 {
		return true
	}
	return hasProp(props, e.Prop)
}

func (e *Enc) activeClauses(cs []*Clause) []*Clause {
	var out []*Clause
	for _, c := range cs {
		if e.active(c.Props) {
			out = append(out, c)
		}
	}
	return out
}

func (e *Enc) addWitness(name string, t *smt.Term) {
	e.Witness = append(e.Witness, WitTerm{name, t})
}

type deferRec struct {
	executed *smt.Term
	call     *ssa.CallCommon
	fr       *Frame
	instr    ssa.Instruction
}

// Frame is one (possibly inlined) function activation.
type Frame struct {
	Fn       *ssa.Function
	Vals     map[ssa.Value]*Val
	Parent   *Frame
	defers   []deferRec
	rets     []retRec
	Entry    *State // state at entry (for old())
	Args     []*Val
	PathID   string // obligation id prefix
	blockIn  map[int]*State
	blockOut map[int]*State
	spec     *FuncSpec
	ghostL   map[string]*smt.Term // per-activation ghost variables (current values live in State.Heaps under "lghost:<frameid>:<name>")
	id       int
	// objects of local variables (ssa.Alloc) whose address does not escape this activation
	localCells []localCell
}

type localCell struct {
	obj *smt.Term
	typ types.Type
}

// addrStaysLocal: the address value v (an Alloc, a FieldAddr / IndexAddr derived from one, or a closure's free
// variable bound to one) is only loaded from, stored to, or captured by closures that this function calls or defers
// itself and that use it in the same way - so no callee reached through a contract can read or write the cell.
func addrStaysLocal(v ssa.Value, seen map[ssa.Value]bool) bool {
	if seen[v] {
		return true
	}
	seen[v] = true
	refs := v.Referrers()
	if refs == nil {
		return false
	}
	for _, r := range *refs {
		switch r := r.(type) {
		case *ssa.Store:
			if r.Val == v {
				return false
			}
		case *ssa.UnOp, *ssa.DebugRef:
		case *ssa.FieldAddr:
			if !addrStaysLocal(r, seen) {
				return false
			}
		case *ssa.IndexAddr:
			if r.X != v || !addrStaysLocal(r, seen) {
				return false
			}
		case *ssa.MakeClosure:
			fn, ok := r.Fn.(*ssa.Function)
			if !ok {
				return false
			}
			for i, b := range r.Bindings {
				if b == v && !addrStaysLocal(fn.FreeVars[i], seen) {
					return false
				}
			}
			crefs := r.Referrers()
			if crefs == nil {
				return false
			}
			for _, cr := range *crefs {
				switch cr := cr.(type) {
				case *ssa.Defer:
					if cr.Call.Value != ssa.Value(r) {
						return false
					}
				case *ssa.Call:
					if cr.Call.Value != ssa.Value(r) {
						return false
					}
				case *ssa.DebugRef:
				default:
					return false
				}
			}
		default:
			return false
		}
	}
	return true
}

type retRec struct {
	st   *State
	vals []*Val
	pos  string
}

func NewEnc(p *Program, top *ssa.Function) *Enc {
	e := &Enc{C: smt.NewCtx(), P: p, Top: top, hsorts: map[string]*smt.Sort{}, init: map[string]*smt.Term{},
		Inlined: map[string]bool{}, UsedSpecs: map[string]bool{}, UsedExtern: map[string]bool{}, safetyN: map[string]int{},
		ghostDecl: map[string]*smt.Sort{}, UsedTypeInv: map[string]bool{}, globalsUsed: map[string]bool{}}
	return e
}

// ---------- heaps ----------

func (e *Enc) heapSortOf(name string, s *smt.Sort) *smt.Sort {
	if old, ok := e.hsorts[name]; ok {
		if s != nil && old != s {
			panic(fmt.Sprintf("heap %s sort mismatch %s vs %s", name, old, s))
		}
		return old
	}
	if s == nil {
		panic("heap sort unknown: " + name)
	}
	e.hsorts[name] = s
	return s
}

func (e *Enc) initHeap(name string) *smt.Term {
	if t, ok := e.init[name]; ok {
		return t
	}
	t := e.C.Const("H0:"+name, e.hsorts[name])
	e.init[name] = t
	return t
}

func (e *Enc) heap(st *State, name string, s *smt.Sort) *smt.Term {
	e.heapSortOf(name, s)
	if t, ok := st.Heaps[name]; ok {
		return t
	}
	return e.defaultHeap(st, name)
}

// defaultHeap: the value of a heap that no instruction on this path has touched: the function-entry heap, or - after a
// "modifies *" havoc - the unconstrained heap constant of that havoc generation.
func (e *Enc) defaultHeap(st *State, name string) *smt.Term {
	return e.genHeap(st.Gen, name)
}

func (e *Enc) genHeap(g *genNode, name string) *smt.Term {
	if g == nil {
		return e.initHeap(name)
	}
	if g.g != nil {
		return e.C.Ite(g.g, e.genHeap(g.a, name), e.genHeap(g.b, name))
	}
	s, ok := e.hsorts[name]
	if !ok {
		if s = e.P.heapSortByName(name); s == nil {
			unsupported("heap %s read after a modifies-* havoc before its sort is known", name)
		}
		e.hsorts[name] = s
	}
	return e.C.Const(fmt.Sprintf("H@%d:%s", g.id, name), s)
}

// havocAll models "modifies *": every heap, touched so far or not, becomes unconstrained. The object type tags,
// the local ghosts of the function under verification and the iteration ghosts are kept (a callee can neither retype
// an object nor see those).
func (e *Enc) havocAll(st *State, fr *Frame) {
	// local variable cells whose address never leaves the activations on the inline stack keep their content: no
	// callee can name them
	type saved struct {
		hn  string
		hs  *smt.Sort
		obj *smt.Term
		old *smt.Term
	}
	var sv []saved
	for f := fr; f != nil; f = f.Parent {
		for _, lc := range f.localCells {
			for hn, hs := range e.heapsOfType(lc.typ) {
				sv = append(sv, saved{hn, hs, lc.obj, e.C.Select(e.heap(st, hn, hs), lc.obj)})
			}
		}
	}
	sort.Slice(sv, func(i, j int) bool {
		if sv[i].hn != sv[j].hn {
			return sv[i].hn < sv[j].hn
		}
		return sv[i].obj.ID < sv[j].obj.ID
	})
	defer func() {
		for _, x := range sv {
			e.setHeap(st, x.hn, e.C.Store(e.heap(st, x.hn, x.hs), x.obj, x.old))
		}
	}()
	keep := map[string]*smt.Term{}
	for h, t := range st.Heaps {
		if h == "ghost:objtype" || strings.HasPrefix(h, "lghost:") || strings.HasPrefix(h, "iter:") {
			keep[h] = t
		}
	}
	for _, hn := range e.P.immutableHeaps() {
		if s := e.P.heapSortByName(hn); s != nil {
			keep[hn] = e.heap(st, hn, s)
		}
	}
	if _, ok := keep["ghost:objtype"]; !ok {
		if s, ok := e.hsorts["ghost:objtype"]; ok {
			keep["ghost:objtype"] = e.heap(st, "ghost:objtype", s)
		}
	}
	e.genSeq++
	st.Gen = &genNode{id: e.genSeq}
	st.Heaps = keep
}

func (e *Enc) setHeap(st *State, name string, t *smt.Term) {
	e.heapSortOf(name, t.Sort)
	st.Heaps[name] = t
}

// havocHeap replaces a heap by a fresh unconstrained version.
func (e *Enc) havocHeap(st *State, name string) {
	s, ok := e.hsorts[name]
	if !ok {
		return // never used so far: its initial constant is already arbitrary... but later uses must see a fresh one
	}
	st.Heaps[name] = e.C.Fresh("H:"+name, s)
}

// ---------- pointers / slices ----------

func (e *Enc) ptrObj(p *smt.Term) *smt.Term { return e.C.Extract(127, 64, p) }
func (e *Enc) ptrIdx(p *smt.Term) *smt.Term { return e.C.Extract(63, 0, p) }
func (e *Enc) mkPtr(obj, idx *smt.Term) *smt.Term {
	return e.C.Concat(obj, idx)
}
func (e *Enc) nilPtr() *smt.Term { return e.C.LitU(0, PtrW) }

func (e *Enc) slObj(s *smt.Term) *smt.Term { return e.C.Extract(255, 192, s) }
func (e *Enc) slOff(s *smt.Term) *smt.Term { return e.C.Extract(191, 128, s) }
func (e *Enc) slLen(s *smt.Term) *smt.Term { return e.C.Extract(127, 64, s) }
func (e *Enc) slCap(s *smt.Term) *smt.Term { return e.C.Extract(63, 0, s) }

// baseSliceHeap: the field heap hn carries the type invariant "off(v) == 0".
func (e *Enc) baseSliceHeap(hn string) bool {
	for _, ti := range e.P.Inv[hn] {
		if ti.Kind == "field" && strings.ReplaceAll(ti.Pred, " ", "") == "off(v)==0" {
			if e.UsedTypeInv != nil {
				e.UsedTypeInv[ti.Kind+" "+ti.Path+" : "+ti.Pred] = true
			}
			return true
		}
	}
	return false
}

func (e *Enc) mkSlice(obj, off, ln, cp *smt.Term) *smt.Term {
	return e.C.Concat(obj, off, ln, cp)
}

func (e *Enc) bv64(v uint64) *smt.Term { return e.C.LitU(v, 64) }

func (e *Enc) zero(t types.Type) *smt.Term {
	s := sortOf(t)
	if s == smt.Bool {
		return e.C.False()
	}
	return e.C.LitU(0, s.W)
}

// toBits converts a value of Go type t to a bit-vector (Bool -> BV1).
func (e *Enc) toBits(v *smt.Term) *smt.Term {
	if v.Sort == smt.Bool {
		return e.C.Ite(v, e.C.LitU(1, 1), e.C.LitU(0, 1))
	}
	return v
}

func (e *Enc) fromBits(v *smt.Term, t types.Type) *smt.Term {
	if isBool(t) {
		return e.C.Eq(v, e.C.LitU(1, 1))
	}
	return v
}

func bitsW(t types.Type) int {
	w := widthOf(t)
	if w == 0 {
		return 1
	}
	return w
}

// objTag is the ghost type tag of the object holding values of type t.
func (e *Enc) objTag(t types.Type) *smt.Term {
	b, _ := arrayBase(t)
	return e.typeID(b)
}

func (e *Enc) objTypeHeap(st *State) *smt.Term {
	return e.heap(st, "ghost:objtype", smt.Array(smt.BV(64), smt.BV(64)))
}

func (e *Enc) tagObj(st *State, obj *smt.Term, t types.Type) {
	h := e.objTypeHeap(st)
	e.setHeap(st, "ghost:objtype", e.C.Store(h, obj, e.objTag(t)))
}

// typedPtr: p is a non-nil, allocated pointer to an object of type t.
func (e *Enc) typedObj(st *State, obj *smt.Term, t types.Type) *smt.Term {
	c := e.C
	return c.And(c.Ne(obj, e.bv64(0)), c.Cmp("bvule", obj, st.Alloc), c.Eq(c.Select(e.objTypeHeap(st), obj), e.objTag(t)))
}

// wellFormed returns the type invariant of a value of type t (is_valid).
func (e *Enc) wellFormed(v *smt.Term, t types.Type, st *State) *smt.Term {
	return e.wellFormedB(v, t, st, st.Alloc)
}

// wellFormedAt: a value read from heap hn at object `from`. If that heap has not been written since function entry
// AND the object read existed at entry, the value was stored before entry, so whatever it points to was allocated
// before entry (it cannot alias an object of this activation). Objects allocated later may have been initialised by
// callees (a contract need not list a heap it only writes on fresh objects), so nothing is assumed for them.
func (e *Enc) wellFormedAt(v *smt.Term, t types.Type, st *State, hn string, from *smt.Term) *smt.Term {
	cur := e.wellFormedB(v, t, st, st.Alloc)
	if hn != "" && e.Alloc0 != nil && from != nil {
		// "absent from Heaps" means "untouched since function entry" only while no modifies-* havoc has happened
		// (st.Gen == nil); after one, an absent heap stands for the unconstrained heap of that generation
		if _, written := st.Heaps[hn]; !written && st.Gen == nil {
			pre := e.wellFormedB(v, t, st, e.Alloc0)
			if pre == cur {
				return cur
			}
			return e.C.Ite(e.C.Cmp("bvule", from, e.Alloc0), pre, cur)
		}
	}
	return cur
}

func (e *Enc) wellFormedB(v *smt.Term, t types.Type, st *State, alloc *smt.Term) *smt.Term {
	c := e.C
	switch u := t.Underlying().(type) {
	case *types.Pointer:
		obj := e.ptrObj(v)
		isnil := c.Eq(obj, e.bv64(0))
		tagged := c.True()
		if !isOpaqueStructT(u.Elem()) {
			if _, isIface := u.Elem().Underlying().(*types.Interface); !isIface {
				tagged = c.Eq(c.Select(e.objTypeHeap(st), obj), e.objTag(u.Elem()))
			}
		}
		return c.And(c.Cmp("bvule", obj, alloc),
			c.Implies(isnil, c.Eq(e.ptrIdx(v), e.bv64(0))),
			c.Implies(c.Not(isnil), tagged),
			c.Cmp("bvult", e.ptrIdx(v), e.bv64(1<<62)))
	case *types.Slice:
		lim := e.bv64(1 << 40) // no slice holds 2^40 or more elements (listed assumption)
		obj := e.slObj(v)
		isnil := c.Eq(obj, e.bv64(0))
		return c.And(c.Cmp("bvule", e.slLen(v), e.slCap(v)), c.Cmp("bvult", e.slCap(v), lim), c.Cmp("bvult", e.slOff(v), e.bv64(1<<62)),
			c.Cmp("bvule", obj, alloc),
			c.Implies(isnil, c.Eq(e.slCap(v), e.bv64(0))),
			c.Implies(c.Not(isnil), c.Eq(c.Select(e.objTypeHeap(st), obj), e.objTag(u.Elem()))))
	case *types.Map:
		return c.And(c.Cmp("bvule", v, alloc), c.Implies(c.Ne(v, e.bv64(0)), c.Eq(c.Select(e.objTypeHeap(st), v), e.typeID(t.Underlying()))))
	case *types.Interface:
		pay := c.Extract(127, 0, v)
		return c.Implies(c.Eq(c.Extract(191, 128, v), e.bv64(0)), c.Eq(pay, e.nilPtr()))
	}
	return c.True()
}

// ---------- memory access ----------

// plainLoc builds the Loc for a plain pointer value with pointee type T.
func plainLoc(p *smt.Term, pointee types.Type) *Loc {
	if isStruct(pointee) {
		return &Loc{Base: p, Root: pointee, Path: "", Typ: pointee}
	}
	return &Loc{Base: p, Root: nil, Path: "", Typ: pointee}
}

func (e *Enc) locOf(v *Val, ptrType types.Type) *Loc {
	if v.Loc != nil {
		return v.Loc
	}
	pt, ok := ptrType.Underlying().(*types.Pointer)
	if !ok {
		unsupported("locOf non-pointer %s", ptrType)
	}
	if v.T == nil {
		unsupported("pointer value without term")
	}
	return plainLoc(v.T, pt.Elem())
}

func joinPath(a, b string) string {
	if a == "" {
		return b
	}
	if b == "" {
		return a
	}
	return a + "." + b
}

// load reads the content of loc.
func (e *Enc) load(st *State, loc *Loc) *smt.Term {
	c := e.C
	t := loc.Typ
	obj, idx := e.ptrObj(loc.Base), e.ptrIdx(loc.Base)
	if loc.Root != nil {
		if isStruct(t) {
			// concat leaves (leaf 0 lowest)
			ls := leavesOf(t)
			parts := make([]*smt.Term, 0, len(ls))
			for i := len(ls) - 1; i >= 0; i-- {
				l := ls[i]
				hn := fieldHeap(loc.Root, joinPath(loc.Path, l.Path))
				h := e.heap(st, hn, heapSort(sortOf(l.Type)))
				lv := c.Select(c.Select(h, obj), idx)
				if e.baseSliceHeap(hn) {
					lv = e.mkSlice(e.slObj(lv), e.bv64(0), e.slLen(lv), e.slCap(lv))
				}
				parts = append(parts, e.toBits(lv))
			}
			if len(parts) == 0 {
				return c.LitU(0, 8)
			}
			return c.Concat(parts...)
		}
		hn := fieldHeap(loc.Root, loc.Path)
		h := e.heap(st, hn, heapSort(sortOf(t)))
		v := c.Select(c.Select(h, obj), idx)
		if e.baseSliceHeap(hn) {
			// type invariant "off(v) == 0" (checked at every store): read the slice with a literal zero offset
			v = e.mkSlice(e.slObj(v), e.bv64(0), e.slLen(v), e.slCap(v))
		}
		return v
	}
	// plain cell
	if isOpaqueStructT(t) {
		return c.LitU(0, 64)
	}
	if isU256(t) && obj.IsLit() && obj.Val.Bit(63) == 1 {
		// a package-level uint256 constant declared in the contract file: its value is fixed (every write through
		// such a pointer is a failed frame obligation, see writeU256), so reads do not go through the heap
		if v := e.globalU256Value(obj.Val.Uint64() &^ (1 << 63)); v != nil {
			return v
		}
	}
	if a, ok := t.Underlying().(*types.Array); ok && !isU256(t) {
		n := int(a.Len())
		sl := slotsOf(a.Elem())
		parts := make([]*smt.Term, 0, n)
		for i := n - 1; i >= 0; i-- {
			ep := e.mkPtr(obj, c.BVOp("bvadd", idx, e.bv64(uint64(i*sl))))
			parts = append(parts, e.toBits(e.load(st, plainLoc(ep, a.Elem()))))
		}
		if n == 0 {
			return c.LitU(0, 8)
		}
		return c.Concat(parts...)
	}
	hn := cellHeap(t)
	h := e.heap(st, hn, heapSort(sortOf(t)))
	return c.Select(c.Select(h, obj), idx)
}

func isOpaqueStructT(t types.Type) bool {
	_, ok := t.Underlying().(*types.Struct)
	return ok && isOpaqueStruct(t)
}

func (e *Enc) storeRaw(st *State, hn string, s *smt.Sort, obj, idx, v *smt.Term) {
	c := e.C
	h := e.heap(st, hn, heapSort(s))
	e.setHeap(st, hn, c.Store(h, obj, c.Store(c.Select(h, obj), idx, v)))
}

// store writes v (register encoding of loc.Typ) to loc.
func (e *Enc) store(st *State, loc *Loc, v *smt.Term) {
	c := e.C
	t := loc.Typ
	obj, idx := e.ptrObj(loc.Base), e.ptrIdx(loc.Base)
	if loc.Root != nil {
		if isStruct(t) {
			ls := leavesOf(t)
			off := 0
			for _, l := range ls {
				w := bitsW(l.Type)
				part := e.fromBits(c.Extract(off+w-1, off, v), l.Type)
				e.storeRaw(st, fieldHeap(loc.Root, joinPath(loc.Path, l.Path)), sortOf(l.Type), obj, idx, part)
				off += w
			}
			return
		}
		e.storeRaw(st, fieldHeap(loc.Root, loc.Path), sortOf(t), obj, idx, v)
		return
	}
	if isOpaqueStructT(t) {
		return
	}
	if a, ok := t.Underlying().(*types.Array); ok && !isU256(t) {
		n := int(a.Len())
		sl := slotsOf(a.Elem())
		w := bitsW(a.Elem())
		for i := 0; i < n; i++ {
			ep := e.mkPtr(obj, c.BVOp("bvadd", idx, e.bv64(uint64(i*sl))))
			part := e.fromBits(c.Extract(i*w+w-1, i*w, v), a.Elem())
			e.store(st, plainLoc(ep, a.Elem()), part)
		}
		return
	}
	e.storeRaw(st, cellHeap(t), sortOf(t), obj, idx, v)
}

// heapsOfType lists the heap names (with sorts) that hold a value of type t
// when it is stored in a cell / as struct root.
func (e *Enc) heapsOfType(t types.Type) map[string]*smt.Sort {
	out := map[string]*smt.Sort{}
	if isStruct(t) {
		for _, l := range leavesOf(t) {
			out[fieldHeap(t, l.Path)] = heapSort(sortOf(l.Type))
		}
		return out
	}
	if isOpaqueStructT(t) {
		return out
	}
	if a, ok := t.Underlying().(*types.Array); ok && !isU256(t) {
		return e.heapsOfType(a.Elem())
	}
	out[cellHeap(t)] = heapSort(sortOf(t))
	return out
}

// allocObj returns a fresh object id and zero-initialises the heaps of type t there.
func (e *Enc) allocObj(st *State, t types.Type) *smt.Term {
	c := e.C
	obj := c.BVOp("bvadd", st.Alloc, e.bv64(1))
	st.Alloc = obj
	e.tagObj(st, obj, t)
	for hn, hs := range e.heapsOfType(t) {
		h := e.heap(st, hn, hs)
		elem := hs.Elem.Elem
		var z *smt.Term
		if elem == smt.Bool {
			z = c.False()
		} else {
			z = c.LitU(0, elem.W)
		}
		e.setHeap(st, hn, c.Store(h, obj, e.constArr(hs.Elem, z)))
	}
	if isOpaqueStructT(t) {
		e.initOpaque(st, t, e.mkPtr(obj, e.bv64(0)))
	}
	return obj
}

func (e *Enc) constArr(s *smt.Sort, z *smt.Term) *smt.Term {
	return e.C.ConstArray(s, z)
}

// ---------- obligations ----------

func (e *Enc) posOf(p token.Pos) string {
	if !p.IsValid() {
		return ""
	}
	ps := e.P.Fset.Position(p)
	f := ps.Filename
	if i := strings.Index(f, "/repo/"); i >= 0 {
		f = f[i+6:]
	}
	return fmt.Sprintf("%s:%d", f, ps.Line)
}

func (e *Enc) oblige(fr *Frame, st *State, kind, label, text string, pos token.Pos, cond *smt.Term, props []string) {
	// a conjunction is split: each conjunct is its own (named) obligation
	if cond.Op == "and" && kind != "safety" && label != "" {
		for i, a := range cond.Args {
			e.oblige(fr, st, kind, fmt.Sprintf("%s.%d", label, i+1), fmt.Sprintf("%s [conjunct %d]", text, i+1), pos, a, props)
		}
		return
	}
	if cond.IsTrue() || st.Reach.IsFalse() {
		// trivially discharged at generation time: still count it
		e.Obls = append(e.Obls, &Obligation{ID: e.oblID(fr, kind, label), Kind: kind, Props: props, Text: text, Func: fnName(e.Top),
			Pos: e.posOf(pos), Guard: st.Reach, Cond: cond})
		return
	}
	o := &Obligation{ID: e.oblID(fr, kind, label), Kind: kind, Props: props, Text: text, Func: fnName(e.Top), Pos: e.posOf(pos),
		Guard: st.Reach, Cond: cond}
	e.Obls = append(e.Obls, o)
}

func (e *Enc) oblID(fr *Frame, kind, label string) string {
	prefix := fnName(e.Top)
	if fr != nil && fr.PathID != "" {
		prefix += "/" + fr.PathID
	}
	base := prefix + "/" + kind
	if label != "" {
		base += ":" + label
	}
	e.safetyN[base]++
	if n := e.safetyN[base]; n > 1 || label == "" {
		return fmt.Sprintf("%s#%d", base, n)
	}
	return base
}

func (e *Enc) safety(fr *Frame, st *State, what string, pos token.Pos, cond *smt.Term) {
	e.oblige(fr, st, "safety", what, what+" at "+e.posOf(pos), pos, cond, e.Props)
	// after the check, execution continues only if it held
	st.Reach = e.C.And(st.Reach, cond)
}

func (e *Enc) assume(st *State, cond *smt.Term) {
	// A quantified assumption is kept as a top-level guarded fact "reach at this point => cond" instead of being
	// conjoined to the path condition: path conditions are disjoined at control-flow merges, and quantified formulas
	// buried under disjunctions are what the solvers handle worst. The two encodings are equivalent (passive form:
	// every variable is assigned once, so the path condition of this point is a formula over global constants).
	if e.hasQuant(cond) {
		if cond.Op == "and" {
			for _, a := range cond.Args {
				e.assume(st, a)
			}
			return
		}
		e.Axioms = append(e.Axioms, e.C.Implies(st.Reach, cond))
		return
	}
	st.Reach = e.C.And(st.Reach, cond)
}

func (e *Enc) hasQuant(t *smt.Term) bool {
	if e.quantCache == nil {
		e.quantCache = map[int]bool{}
	}
	if v, ok := e.quantCache[t.ID]; ok {
		return v
	}
	r := t.Op == "forall" || t.Op == "exists"
	if !r {
		for _, a := range t.Args {
			if e.hasQuant(a) {
				r = true
				break
			}
		}
	}
	e.quantCache[t.ID] = r
	return r
}

func fnName(f *ssa.Function) string {
	if f == nil {
		return "?"
	}
	s := f.String()
	s = strings.ReplaceAll(s, "github.com/artela-network/artela-evm/", "")
	s = strings.ReplaceAll(s, "github.com/holiman/uint256", "uint256")
	s = strings.ReplaceAll(s, "github.com/ethereum/go-ethereum/common", "common")
	return s
}

// ---------- function encoding ----------

var frameSeq int

// encodeBody symbolically executes fn from state st with the given arguments.
// It returns the merged state at the function's normal exits and the results.
func (e *Enc) encodeBody(fn *ssa.Function, args []*Val, bind []*Val, st *State, parent *Frame, pathID string) (*State, []*Val) {
	if len(fn.Blocks) == 0 {
		unsupported("function without body: %s", fnName(fn))
	}
	for _, f := range e.stack {
		if f == fn {
			unsupported("recursive inlining of %s (needs a contract)", fnName(fn))
		}
	}
	if len(e.stack) > 14 {
		unsupported("inlining too deep at %s", fnName(fn))
	}
	e.stack = append(e.stack, fn)
	defer func() { e.stack = e.stack[:len(e.stack)-1] }()

	frameSeq++
	fr := &Frame{Fn: fn, Vals: map[ssa.Value]*Val{}, Parent: parent, Args: args, PathID: pathID,
		blockIn: map[int]*State{}, blockOut: map[int]*State{}, id: frameSeq}
	fr.spec = e.P.Specs[fnName(fn)]
	if parent == nil {
		e.topFrame = fr
	}
	for i, p := range fn.Params {
		if i < len(args) {
			fr.Vals[p] = args[i]
		}
	}
	for i, fv := range fn.FreeVars {
		if i < len(bind) {
			fr.Vals[fv] = bind[i]
		} else {
			unsupported("free variable %s of %s unbound", fv.Name(), fnName(fn))
		}
	}
	fr.Entry = st.clone()
	e.initLocalGhosts(fr, st)

	order, backEdges, headers := loopInfo(fn)
	for _, b := range order {
		var in *State
		if b.Index == 0 {
			in = st.clone()
		} else {
			in = e.mergePreds(fr, b, backEdges)
			if in == nil {
				continue // unreachable
			}
		}
		if hdr, ok := headers[b.Index]; ok {
			e.enterLoop(fr, b, hdr, in, backEdges)
		}
		fr.blockIn[b.Index] = in.clone()
		cur := in
		for _, ins := range b.Instrs {
			if _, isPhi := ins.(*ssa.Phi); isPhi {
				continue // handled in mergePreds / enterLoop
			}
			e.instr(fr, cur, ins)
		}
		fr.blockOut[b.Index] = cur
		// back edges out of this block: check invariant
		for _, s := range b.Succs {
			if backEdges[[2]int{b.Index, s.Index}] {
				e.checkBackEdge(fr, b, s, cur, headers[s.Index])
			}
		}
	}
	// merge returns
	if len(fr.rets) == 0 {
		out := st.clone()
		out.Reach = e.C.False()
		return out, nil
	}
	return e.mergeReturns(fr)
}

func (e *Enc) mergeReturns(fr *Frame) (*State, []*Val) {
	c := e.C
	rs := fr.rets
	out := rs[len(rs)-1].st.clone()
	vals := rs[len(rs)-1].vals
	for i := len(rs) - 2; i >= 0; i-- {
		r := rs[i]
		g := r.st.Reach
		out = e.mergeStates(g, r.st, out)
		nv := make([]*Val, len(vals))
		for j := range vals {
			nv[j] = e.iteVal(g, r.vals[j], vals[j])
		}
		vals = nv
	}
	reach := []*smt.Term{}
	for _, r := range rs {
		reach = append(reach, r.st.Reach)
	}
	out.Reach = c.Or(reach...)
	return out, vals
}

func (e *Enc) iteVal(g *smt.Term, a, b *Val) *Val {
	if a == b {
		return a
	}
	if a.Tup != nil || b.Tup != nil {
		if len(a.Tup) != len(b.Tup) {
			unsupported("merge of tuples of different arity")
		}
		out := &Val{}
		for i := range a.Tup {
			out.Tup = append(out.Tup, e.iteVal(g, a.Tup[i], b.Tup[i]))
		}
		return out
	}
	at, bt := e.valTerm(a), e.valTerm(b)
	if at == bt {
		return a
	}
	return &Val{T: e.C.Ite(g, at, bt)}
}

// valTerm forces a Val into a term (escaping interior pointers).
func (e *Enc) valTerm(v *Val) *smt.Term {
	if v.T != nil {
		return v.T
	}
	if v.Loc != nil {
		l := v.Loc
		if l.Root == nil {
			return l.Base
		}
		e.note("interior pointer escapes: &(%s).%s", typeStr(l.Root), l.Path)
		return e.C.App("fieldptr:"+structKey(l.Root)+"."+l.Path, smt.BV(PtrW), l.Base)
	}
	if v.Fn != nil {
		return e.funcID(v.Fn)
	}
	unsupported("value without term")
	return nil
}

func (e *Enc) funcID(f *ssa.Function) *smt.Term {
	return e.C.App("funcid:"+fnName(f), smt.BV(FuncW))
}

func (e *Enc) note(f string, a ...interface{}) {
	s := fmt.Sprintf(f, a...)
	for _, n := range e.Notes {
		if n == s {
			return
		}
	}
	e.Notes = append(e.Notes, s)
}

func (e *Enc) mergeStates(g *smt.Term, a, b *State) *State {
	c := e.C
	out := &State{Heaps: map[string]*smt.Term{}}
	keys := map[string]bool{}
	for k := range a.Heaps {
		keys[k] = true
	}
	for k := range b.Heaps {
		keys[k] = true
	}
	for k := range keys {
		ha, oka := a.Heaps[k]
		hb, okb := b.Heaps[k]
		if !oka {
			ha = e.defaultHeap(a, k)
		}
		if !okb {
			hb = e.defaultHeap(b, k)
		}
		out.Heaps[k] = c.Ite(g, ha, hb)
	}
	if a.Gen == b.Gen {
		out.Gen = a.Gen
	} else {
		// heaps untouched on both sides differ by generation: resolved lazily, per heap name, as ite(g, ., .)
		out.Gen = &genNode{g: g, a: a.Gen, b: b.Gen}
	}
	out.Alloc = c.Ite(g, a.Alloc, b.Alloc)
	out.Reach = c.Or(a.Reach, b.Reach)
	return out
}

// loopInfo computes a reverse-postorder of reachable blocks, the set of back edges and loop headers.
type loopHdr struct {
	header int
	body   map[int]bool
}

func loopInfo(fn *ssa.Function) ([]*ssa.BasicBlock, map[[2]int]bool, map[int]*loopHdr) {
	back := map[[2]int]bool{}
	headers := map[int]*loopHdr{}
	state := map[int]int{} // 0 unvisited 1 on stack 2 done
	var post []*ssa.BasicBlock
	var dfs func(b *ssa.BasicBlock)
	dfs = func(b *ssa.BasicBlock) {
		state[b.Index] = 1
		for _, s := range b.Succs {
			switch state[s.Index] {
			case 0:
				dfs(s)
			case 1:
				back[[2]int{b.Index, s.Index}] = true
				if headers[s.Index] == nil {
					headers[s.Index] = &loopHdr{header: s.Index, body: map[int]bool{}}
				}
			}
		}
		state[b.Index] = 2
		post = append(post, b)
	}
	dfs(fn.Blocks[0])
	// natural loop bodies
	for be := range back {
		h := headers[be[1]]
		h.body[be[1]] = true
		var stack []int
		if !h.body[be[0]] {
			h.body[be[0]] = true
			stack = append(stack, be[0])
		}
		for len(stack) > 0 {
			n := stack[len(stack)-1]
			stack = stack[:len(stack)-1]
			for _, p := range fn.Blocks[n].Preds {
				if !h.body[p.Index] && state[p.Index] == 2 {
					h.body[p.Index] = true
					stack = append(stack, p.Index)
				}
			}
		}
	}
	order := make([]*ssa.BasicBlock, 0, len(post))
	for i := len(post) - 1; i >= 0; i-- {
		order = append(order, post[i])
	}
	return order, back, headers
}

func (e *Enc) edgeCond(fr *Frame, p, b *ssa.BasicBlock) *smt.Term {
	last := p.Instrs[len(p.Instrs)-1]
	if iff, ok := last.(*ssa.If); ok {
		cv := e.val(fr, iff.Cond).T
		if p.Succs[0] == b && p.Succs[1] == b {
			return e.C.True()
		}
		if p.Succs[0] == b {
			return cv
		}
		return e.C.Not(cv)
	}
	return e.C.True()
}

// mergePreds builds the entry state of b from its non-back-edge predecessors and defines phis.
func (e *Enc) mergePreds(fr *Frame, b *ssa.BasicBlock, back map[[2]int]bool) *State {
	c := e.C
	type inc struct {
		pi    int
		st    *State
		taken *smt.Term
	}
	var incs []inc
	for pi, p := range b.Preds {
		if back[[2]int{p.Index, b.Index}] {
			continue
		}
		ps, ok := fr.blockOut[p.Index]
		if !ok {
			continue
		}
		taken := c.And(ps.Reach, e.edgeCond(fr, p, b))
		if taken.IsFalse() {
			continue
		}
		incs = append(incs, inc{pi, ps, taken})
	}
	if len(incs) == 0 {
		return nil
	}
	out := incs[len(incs)-1].st.clone()
	out.Reach = incs[len(incs)-1].taken
	for i := len(incs) - 2; i >= 0; i-- {
		in := incs[i]
		s2 := in.st.clone()
		s2.Reach = in.taken
		out = e.mergeStates(in.taken, s2, out)
	}
	// phis
	for _, ins := range b.Instrs {
		phi, ok := ins.(*ssa.Phi)
		if !ok {
			break
		}
		var v *Val
		for i := len(incs) - 1; i >= 0; i-- {
			ev := e.val(fr, phi.Edges[incs[i].pi])
			if v == nil {
				v = ev
			} else {
				v = e.iteVal(incs[i].taken, ev, v)
			}
		}
		fr.Vals[phi] = v
	}
	return out
}

// ---------- values ----------

func (e *Enc) val(fr *Frame, v ssa.Value) *Val {
	if x, ok := fr.Vals[v]; ok {
		return x
	}
	switch v := v.(type) {
	case *ssa.Const:
		return e.constVal(v)
	case *ssa.Function:
		return &Val{Fn: v}
	case *ssa.Global:
		return e.globalAddr(v)
	case *ssa.Builtin:
		unsupported("builtin as value: %s", v.Name())
	}
	// a value defined in an enclosing frame cannot be referenced (closures use FreeVars)
	unsupported("use of undefined SSA value %s (%T) in %s", v.Name(), v, fnName(fr.Fn))
	return nil
}

func (e *Enc) globalAddr(g *ssa.Global) *Val {
	// address of a package-level variable: a distinguished object per global
	name := g.Pkg.Pkg.Path() + "." + g.Name()
	name = strings.ReplaceAll(name, "github.com/artela-network/artela-evm/", "")
	obj := e.C.App("globalobj:"+name, smt.BV(64))
	e.addAxiomOnce("globalobj:"+name, e.C.And(e.C.Cmp("bvugt", obj, e.bv64(0)), e.C.Cmp("bvule", obj, e.Alloc0)))
	return &Val{T: e.mkPtr(obj, e.bv64(0))}
}

var axiomSeen = map[*Enc]map[string]bool{}

func (e *Enc) addAxiomOnce(key string, ax *smt.Term) {
	m := axiomSeen[e]
	if m == nil {
		m = map[string]bool{}
		axiomSeen[e] = m
	}
	if m[key] {
		return
	}
	m[key] = true
	e.Axioms = append(e.Axioms, ax)
}

func sortedKeys(m map[string]bool) []string {
	var out []string
	for k := range m {
		out = append(out, k)
	}
	sort.Strings(out)
	return out
}
