// Package govc generates verification conditions for Go functions from
// go/ssa and discharges them with SMT solvers. See /verif/DESIGN.md §3.1.
package govc

import (
	"fmt"
	"go/types"
	"regexp"
	"strings"

	"verif/internal/smt"
)

// Widths of composite encodings.
const (
	PtrW   = 128 // obj(64) ++ idx(64)
	SliceW = 256 // obj ++ off ++ len ++ cap   (high .. low)
	StrW   = 64  // abstract string value id
	MapW   = 64
	FuncW  = 64
	IfaceW = 192 // typeid(64) ++ payload(128)
)

type Unsupported struct{ Msg string }

func (u *Unsupported) Error() string { return "outside subset: " + u.Msg }

func unsupported(f string, a ...interface{}) {
	panic(&Unsupported{Msg: fmt.Sprintf(f, a...)})
}

func qual(p *types.Package) string {
	if p == nil {
		return ""
	}
	path := p.Path()
	path = strings.TrimPrefix(path, "github.com/artela-network/artela-evm/")
	switch path {
	case "github.com/holiman/uint256":
		return "uint256"
	case "github.com/ethereum/go-ethereum/common":
		return "common"
	}
	return path
}

var byteWordRe = regexp.MustCompile(`\bbyte\b`)

// typeStr prints a type with short package qualifiers; the alias byte is printed as uint8 so that
// heap names do not depend on how a declaration happens to spell the type.
func typeStr(t types.Type) string {
	s := normType(types.TypeString(t, qual))
	// a named type declared inside a function (gencodec's local "callFrame0" in MarshalJSON and in UnmarshalJSON) is
	// distinguished by the position of its declaration: two such types may share a name and differ in their fields
	base := t
	if p, ok := base.(*types.Pointer); ok {
		base = p.Elem()
	}
	if n, ok := base.(*types.Named); ok {
		if o := n.Obj(); o != nil && o.Pkg() != nil && o.Parent() != nil && o.Parent() != o.Pkg().Scope() {
			s += fmt.Sprintf("@%d", o.Pos())
		}
	}
	return s
}

func normType(s string) string {
	if strings.Contains(s, "byte") {
		return byteWordRe.ReplaceAllString(s, "uint8")
	}
	return s
}

func isU256(t types.Type) bool {
	n, ok := t.(*types.Named)
	if !ok {
		return false
	}
	o := n.Obj()
	return o.Name() == "Int" && o.Pkg() != nil && o.Pkg().Path() == "github.com/holiman/uint256"
}

func isNamed(t types.Type, pkgSuffix, name string) bool {
	n, ok := t.(*types.Named)
	if !ok {
		return false
	}
	o := n.Obj()
	return o.Name() == name && o.Pkg() != nil && strings.HasSuffix(o.Pkg().Path(), pkgSuffix)
}

// opaque struct types: accessed only through modelled methods
func isOpaqueStruct(t types.Type) bool {
	n, ok := t.(*types.Named)
	if !ok {
		return false
	}
	o := n.Obj()
	if o.Pkg() == nil {
		return false
	}
	p := o.Pkg().Path()
	switch p {
	case "math/big", "sync", "sync/atomic", "time", "context", "encoding/json":
		return true
	}
	return false
}

// widthOf returns the bit width of the register encoding of t (0 for bool => Bool sort).
func widthOf(t types.Type) int {
	if isU256(t) {
		return 256
	}
	switch u := t.Underlying().(type) {
	case *types.Basic:
		switch u.Kind() {
		case types.Bool, types.UntypedBool:
			return 0
		case types.Int8, types.Uint8:
			return 8
		case types.Int16, types.Uint16:
			return 16
		case types.Int32, types.Uint32, types.UntypedRune:
			return 32
		case types.Int, types.Uint, types.Int64, types.Uint64, types.Uintptr, types.UntypedInt:
			return 64
		case types.String, types.UntypedString:
			return StrW
		case types.UnsafePointer:
			return PtrW
		case types.UntypedNil:
			return PtrW
		}
		unsupported("basic type %s", t)
	case *types.Pointer:
		return PtrW
	case *types.Slice:
		return SliceW
	case *types.Map:
		return MapW
	case *types.Signature:
		return FuncW
	case *types.Interface:
		return IfaceW
	case *types.Chan:
		return PtrW
	case *types.Array:
		w := widthOf(u.Elem())
		if w == 0 {
			w = 1
		}
		n := int(u.Len())
		if n == 0 {
			return 8 // zero-sized: dummy
		}
		if n*w > 8192 {
			unsupported("array too wide: %s", t)
		}
		return n * w
	case *types.Struct:
		if isOpaqueStruct(t) {
			return 64 // opaque token; such values are only handled through pointers
		}
		w := 0
		for _, lf := range leavesOf(t) {
			lw := widthOf(lf.Type)
			if lw == 0 {
				lw = 1
			}
			w += lw
		}
		if w == 0 {
			return 8
		}
		return w
	case *types.Tuple:
		unsupported("tuple width")
	}
	unsupported("type %s", t)
	return 0
}

func sortOf(t types.Type) *smt.Sort {
	w := widthOf(t)
	if w == 0 {
		return smt.Bool
	}
	return smt.BV(w)
}

func isSigned(t types.Type) bool {
	b, ok := t.Underlying().(*types.Basic)
	if !ok {
		return false
	}
	return b.Info()&types.IsInteger != 0 && b.Info()&types.IsUnsigned == 0
}

func isBool(t types.Type) bool {
	b, ok := t.Underlying().(*types.Basic)
	return ok && b.Info()&types.IsBoolean != 0
}

func isString(t types.Type) bool {
	b, ok := t.Underlying().(*types.Basic)
	return ok && b.Info()&types.IsString != 0
}

func isStruct(t types.Type) bool {
	if isU256(t) {
		return false
	}
	_, ok := t.Underlying().(*types.Struct)
	return ok && !isOpaqueStruct(t)
}

// Leaf is one flattened field of a struct type.
type Leaf struct {
	Path string // dotted path
	Type types.Type
}

var leafCache = map[string][]Leaf{}

// leavesOf flattens a struct type (nested non-opaque structs are expanded).
func leavesOf(t types.Type) []Leaf {
	key := typeStr(t)
	if l, ok := leafCache[key]; ok {
		return l
	}
	st, ok := t.Underlying().(*types.Struct)
	if !ok {
		return nil
	}
	var out []Leaf
	for i := 0; i < st.NumFields(); i++ {
		f := st.Field(i)
		if isStruct(f.Type()) {
			for _, l := range leavesOf(f.Type()) {
				out = append(out, Leaf{Path: f.Name() + "." + l.Path, Type: l.Type})
			}
		} else {
			out = append(out, Leaf{Path: f.Name(), Type: f.Type()})
		}
	}
	leafCache[key] = out
	return out
}

// slotsOf: how many index slots a value of type t occupies in its cell heap.
func slotsOf(t types.Type) int {
	if isU256(t) {
		return 1
	}
	if a, ok := t.Underlying().(*types.Array); ok {
		return int(a.Len()) * slotsOf(a.Elem())
	}
	return 1
}

// structKey names a struct type for field-heap naming. Unnamed struct types use their string.
func structKey(t types.Type) string { return typeStr(t) }

func fieldHeap(structT types.Type, path string) string {
	return "fld:" + structKey(structT) + "." + path
}

func cellHeap(elem types.Type) string { return "cell:" + typeStr(elem) }

func heapSort(elemSort *smt.Sort) *smt.Sort {
	return smt.Array(smt.BV(64), smt.Array(smt.BV(64), elemSort))
}

func mapKeySort(m *types.Map) *smt.Sort { return sortOf(m.Key()) }
func mapHeap(m *types.Map) string       { return "map:" + typeStr(m) }
func mapDomHeap(m *types.Map) string    { return "mapdom:" + typeStr(m) }

// elemLeafType returns the non-array base element type and total multiplicity of an array type
func arrayBase(t types.Type) (types.Type, int) {
	if isU256(t) {
		return t, 1
	}
	if a, ok := t.Underlying().(*types.Array); ok {
		b, n := arrayBase(a.Elem())
		return b, n * int(a.Len())
	}
	return t, 1
}
