package govc

import (
	"fmt"
	"go/types"
	"math/big"
	"strings"

	"verif/internal/smt"
)

const MathW = 320

// SVal is the value of a spec expression.
type SVal struct {
	T    *smt.Term
	Loc  *Loc       // addressable location not yet loaded
	Typ  types.Type // Go type; nil for math / untyped
	Num  *big.Int   // untyped integer literal
	Math bool       // BV320 mathematical (non-wrapping) integer
	Nil  bool
}

type Env struct {
	e      *Enc
	fr     *Frame
	vars   map[string]*SVal
	st     *State
	old    *State
	alloc0 *smt.Term
	pkg    *types.Package
	macros map[string]*Macro
	depth  int
	// allocation counter at the entry of the loop whose invariant is being evaluated (loopfresh)
	loopAlloc *smt.Term
	inQuant   bool // evaluating under a binder: side assumptions must not be emitted (they would capture bound variables)
}

type Macro struct {
	Name   string
	Params []string
	Body   *SExpr
	Src    string
}

func (env *Env) child() *Env {
	n := *env
	n.vars = map[string]*SVal{}
	for k, v := range env.vars {
		n.vars[k] = v
	}
	return &n
}

type specErr struct{ msg string }

func sfail(f string, a ...interface{}) { panic(&specErr{fmt.Sprintf(f, a...)}) }

// EvalBool evaluates a boolean spec expression.
func (env *Env) EvalBool(x *SExpr) (t *smt.Term, err error) {
	defer func() {
		if r := recover(); r != nil {
			if se, ok := r.(*specErr); ok {
				err = fmt.Errorf("spec: %s", se.msg)
				return
			}
			panic(r)
		}
	}()
	v := env.val(env.ev(x))
	if v.T == nil || v.T.Sort != smt.Bool {
		sfail("expression is not boolean")
	}
	return v.T, nil
}

// evalAny evaluates a spec expression of any sort (numbers become 64-bit literals).
func (env *Env) evalAny(x *SExpr) (sv *SVal, err error) {
	defer func() {
		if r := recover(); r != nil {
			if se, ok := r.(*specErr); ok {
				err = fmt.Errorf("spec: %s", se.msg)
				return
			}
			panic(r)
		}
	}()
	v := env.val(env.ev(x))
	if v.T == nil && v.Num != nil {
		return &SVal{T: env.e.C.Lit(v.Num, 64)}, nil
	}
	if v.T == nil {
		sfail("witness expression has no value")
	}
	return v, nil
}

func (env *Env) EvalTerm(x *SExpr) (t *smt.Term, ty types.Type, err error) {
	defer func() {
		if r := recover(); r != nil {
			if se, ok := r.(*specErr); ok {
				err = fmt.Errorf("spec: %s", se.msg)
				return
			}
			panic(r)
		}
	}()
	v := env.val(env.ev(x))
	if v.T == nil && v.Num != nil {
		return env.e.C.Lit(v.Num, 64), nil, nil
	}
	return v.T, v.Typ, nil
}

// val forces loading of a location.
func (env *Env) val(v *SVal) *SVal {
	if v.T != nil || v.Num != nil || v.Nil {
		return v
	}
	if v.Loc != nil {
		t := env.e.load(env.st, v.Loc)
		// Go-level type invariant of the loaded value (0 <= len <= cap < 2^40, allocated, typed): always true of a
		// well-typed heap, so it may be assumed wherever a contract reads memory
		if !env.inQuant {
			if wf := env.e.wellFormedAt(t, v.Loc.Typ, env.st, locHeap(v.Loc), env.e.ptrObj(v.Loc.Base)); !wf.IsTrue() {
				env.e.assume(env.st, wf)
			}
		}
		return &SVal{T: t, Typ: v.Loc.Typ, Loc: v.Loc}
	}
	sfail("value expected")
	return nil
}

func (env *Env) ev(x *SExpr) *SVal {
	e := env.e
	c := e.C
	switch x.Kind {
	case "num":
		return &SVal{Num: x.Num}
	case "bool":
		return &SVal{T: c.BoolLit(x.Name == "true"), Typ: types.Typ[types.Bool]}
	case "nil":
		return &SVal{Nil: true}
	case "str":
		return &SVal{T: e.stringLit(x.Name), Typ: types.Typ[types.String]}
	case "ident":
		return env.ident(x.Name)
	case "sel":
		// package-qualified global?
		if x.Args[0].Kind == "ident" {
			if _, ok := env.vars[x.Args[0].Name]; !ok {
				if g := e.P.lookupGlobal(x.Args[0].Name + "." + x.Name); g != nil {
					return env.globalVal(x.Args[0].Name + "." + x.Name)
				}
			}
		}
		return env.sel(env.ev(x.Args[0]), x.Name)
	case "index":
		return env.index(env.val(env.ev(x.Args[0])), env.val(env.ev(x.Args[1])))
	case "slice":
		return env.slice(x)
	case "unop":
		return env.unop(x)
	case "binop":
		return env.binop(x)
	case "call":
		return env.call(x)
	case "quant":
		return env.quant(x)
	}
	sfail("unknown node %s", x.Kind)
	return nil
}

func (env *Env) ident(name string) *SVal {
	if v, ok := env.vars[name]; ok {
		return v
	}
	if m, ok := env.macros[name]; ok && len(m.Params) == 0 {
		if env.depth > 20 {
			sfail("let expansion too deep")
		}
		sub := env.child()
		sub.depth = env.depth + 1
		return sub.ev(m.Body)
	}
	e := env.e
	// local ghost variable of the current frame
	if env.fr != nil {
		if gs, ok := env.fr.localGhostSort(name); ok {
			return &SVal{T: e.heap(env.st, env.fr.ghostName(name), gs), Typ: ghostGoType(gs)}
		}
	}
	// global ghost
	if gs, ok := e.P.Ghosts[name]; ok {
		return &SVal{T: e.heap(env.st, "ghost:"+name, gs.Sort), Typ: ghostGoType(gs.Sort)}
	}
	// source-level local variable
	if env.fr != nil {
		if sv := e.localByName(env.fr, name); sv != nil {
			return sv
		}
	}
	// package-level variable of the current package
	if env.pkg != nil {
		q := qual(env.pkg) + "." + name
		if g := e.P.lookupGlobal(q); g != nil {
			return env.globalVal(q)
		}
	}
	sfail("unknown identifier %q", name)
	return nil
}

func ghostGoType(s *smt.Sort) types.Type {
	if s == smt.Bool {
		return types.Typ[types.Bool]
	}
	if s.Kind == smt.KBV && s.W == 64 {
		return types.Typ[types.Uint64]
	}
	return nil
}

func (env *Env) globalVal(q string) *SVal {
	e := env.e
	g := e.P.lookupGlobal(q)
	pt := g.Type().Underlying().(*types.Pointer)
	if gv := e.globalConstVal(q, pt.Elem()); gv != nil {
		return &SVal{T: gv, Typ: pt.Elem()}
	}
	addr := e.globalAddr(g)
	return &SVal{Loc: plainLoc(addr.T, pt.Elem())}
}

// sel selects a field (auto-dereferencing pointers).
func (env *Env) sel(v *SVal, name string) *SVal {
	e := env.e
	// figure out the struct type and the base location
	var loc *Loc
	var styp types.Type
	if v.Loc != nil && v.T == nil {
		if _, isPtr := v.Loc.Typ.Underlying().(*types.Pointer); isPtr {
			pv := env.val(v)
			pt := pv.Typ.Underlying().(*types.Pointer)
			loc = plainLoc(pv.T, pt.Elem())
			styp = pt.Elem()
		} else {
			loc = v.Loc
			styp = v.Loc.Typ
		}
	} else {
		if v.Typ == nil {
			sfail("selector .%s on untyped value", name)
		}
		if pt, isPtr := v.Typ.Underlying().(*types.Pointer); isPtr {
			loc = plainLoc(v.T, pt.Elem())
			styp = pt.Elem()
		} else if st, isStruct := v.Typ.Underlying().(*types.Struct); isStruct {
			// struct value: extract field
			for i := 0; i < st.NumFields(); i++ {
				if st.Field(i).Name() == name {
					return &SVal{T: e.extractField(v.T, v.Typ, st, i), Typ: st.Field(i).Type()}
				}
			}
			sfail("no field %s in %s", name, typeStr(v.Typ))
		} else {
			sfail("selector .%s on %s", name, typeStr(v.Typ))
		}
	}
	obj, index, _ := types.LookupFieldOrMethod(styp, true, env.pkgOf(styp), name)
	fv, ok := obj.(*types.Var)
	if !ok || fv == nil {
		sfail("no field %s in %s", name, typeStr(styp))
	}
	// walk the index path
	cur := loc
	ct := styp
	for _, ix := range index {
		st, ok := ct.Underlying().(*types.Struct)
		if !ok {
			// embedded pointer: deref
			if pt, isPtr := ct.Underlying().(*types.Pointer); isPtr {
				pv := e.load(env.st, cur)
				cur = plainLoc(pv, pt.Elem())
				ct = pt.Elem()
				st = ct.Underlying().(*types.Struct)
			} else {
				sfail("bad field path")
			}
		}
		f := st.Field(ix)
		if cur.Root == nil {
			if isOpaqueStructT(ct) {
				cur = &Loc{Base: cur.Base, Root: ct, Path: f.Name(), Typ: f.Type()}
			} else {
				sfail("field of non-struct location %s", typeStr(ct))
			}
		} else {
			cur = &Loc{Base: cur.Base, Root: cur.Root, Path: joinPath(cur.Path, f.Name()), Typ: f.Type()}
		}
		ct = f.Type()
	}
	return &SVal{Loc: cur, Typ: ct}
}

func (env *Env) pkgOf(t types.Type) *types.Package {
	if n, ok := t.(*types.Named); ok && n.Obj().Pkg() != nil {
		return n.Obj().Pkg()
	}
	return env.pkg
}

func (env *Env) to64(v *SVal) *smt.Term {
	c := env.e.C
	if v.Num != nil {
		return c.Lit(v.Num, 64)
	}
	if v.T.Sort.Kind != smt.KBV {
		sfail("integer expected")
	}
	w := v.T.Sort.W
	if w == 64 {
		return v.T
	}
	if w > 64 {
		return c.Extract(63, 0, v.T)
	}
	if v.Typ != nil && isSigned(v.Typ) {
		return c.SExt(v.T, 64)
	}
	return c.ZExt(v.T, 64)
}

func (env *Env) index(x, i *SVal) *SVal {
	e := env.e
	c := e.C
	if x.Typ == nil && x.T != nil && x.T.Sort.Kind == smt.KArray {
		// ghost map (SMT array)
		var k *smt.Term
		if i.Num != nil {
			k = c.Lit(i.Num, x.T.Sort.Idx.W)
		} else {
			k = i.T
		}
		el := c.Select(x.T, k)
		return &SVal{T: el, Typ: ghostGoType(el.Sort)}
	}
	if x.Typ == nil {
		sfail("index on untyped value")
	}
	switch xt := x.Typ.Underlying().(type) {
	case *types.Slice:
		i64 := env.to64(i)
		sl := slotsOf(xt.Elem())
		idx := c.BVOp("bvadd", e.slOff(x.T), c.BVOp("bvmul", i64, e.bv64(uint64(sl))))
		return &SVal{Loc: plainLoc(e.mkPtr(e.slObj(x.T), idx), xt.Elem()), Typ: xt.Elem()}
	case *types.Map:
		k := env.coerce(i, xt.Key())
		_, val := e.mapRead(env.st, xt, x.T, k)
		return &SVal{T: val, Typ: xt.Elem()}
	case *types.Array:
		i64 := env.to64(i)
		w := bitsW(xt.Elem())
		if i64.IsLit() {
			k := int(i64.Val.Int64())
			return &SVal{T: e.fromBits(c.Extract(k*w+w-1, k*w, x.T), xt.Elem()), Typ: xt.Elem()}
		}
		tw := x.T.Sort.W
		sh := c.BVOp("bvmul", c.ZExt(c.Extract(31, 0, i64), tw), c.LitU(uint64(w), tw))
		return &SVal{T: e.fromBits(c.Extract(w-1, 0, c.BVOp("bvlshr", x.T, sh)), xt.Elem()), Typ: xt.Elem()}
	case *types.Basic:
		if isString(x.Typ) {
			return &SVal{T: c.App("strbyte", smt.BV(8), x.T, env.to64(i)), Typ: types.Typ[types.Uint8]}
		}
	}
	sfail("cannot index %s", typeStr(x.Typ))
	return nil
}

func (env *Env) slice(x *SExpr) *SVal {
	e := env.e
	c := e.C
	s := env.val(env.ev(x.Args[0]))
	st, ok := s.Typ.Underlying().(*types.Slice)
	if !ok {
		sfail("slice expression on %s", typeStr(s.Typ))
	}
	lo := e.bv64(0)
	hi := e.slLen(s.T)
	if x.Args[1] != nil {
		lo = env.to64(env.val(env.ev(x.Args[1])))
	}
	if x.Args[2] != nil {
		hi = env.to64(env.val(env.ev(x.Args[2])))
	}
	sl := slotsOf(st.Elem())
	return &SVal{T: e.mkSlice(e.slObj(s.T), c.BVOp("bvadd", e.slOff(s.T), c.BVOp("bvmul", lo, e.bv64(uint64(sl)))),
		c.BVOp("bvsub", hi, lo), c.BVOp("bvsub", e.slCap(s.T), lo)), Typ: s.Typ}
}

func (env *Env) unop(x *SExpr) *SVal {
	c := env.e.C
	switch x.Op {
	case "!":
		v := env.val(env.ev(x.Args[0]))
		if v.T == nil || v.T.Sort != smt.Bool {
			sfail("! on non-bool")
		}
		return &SVal{T: c.Not(v.T), Typ: v.Typ}
	case "-":
		v := env.val(env.ev(x.Args[0]))
		if v.Num != nil {
			return &SVal{Num: new(big.Int).Neg(v.Num)}
		}
		return &SVal{T: c.BVNeg(v.T), Typ: v.Typ, Math: v.Math}
	case "~":
		v := env.val(env.ev(x.Args[0]))
		return &SVal{T: c.BVNot(v.T), Typ: v.Typ}
	case "*":
		v := env.val(env.ev(x.Args[0]))
		if v.Typ == nil {
			sfail("deref of untyped")
		}
		pt, ok := v.Typ.Underlying().(*types.Pointer)
		if !ok {
			sfail("deref of non-pointer %s", typeStr(v.Typ))
		}
		return &SVal{Loc: plainLoc(v.T, pt.Elem()), Typ: pt.Elem()}
	}
	sfail("unop %s", x.Op)
	return nil
}

// coerce converts v to the sort of Go type t.
func (env *Env) coerce(v *SVal, t types.Type) *smt.Term {
	c := env.e.C
	s := sortOf(t)
	if v.Nil {
		return env.e.zero(t)
	}
	if v.Num != nil {
		if s == smt.Bool {
			sfail("number where bool expected")
		}
		return c.Lit(v.Num, s.W)
	}
	v = env.val(v)
	if v.T.Sort == s {
		return v.T
	}
	if v.T.Sort.Kind == smt.KBV && s.Kind == smt.KBV {
		if v.T.Sort.W > s.W {
			return c.Extract(s.W-1, 0, v.T)
		}
		return c.ZExt(v.T, s.W)
	}
	sfail("cannot coerce %s to %s", v.T.Sort, typeStr(t))
	return nil
}

// unify brings two operands to a common sort.
func (env *Env) unify(a, b *SVal) (*smt.Term, *smt.Term, *SVal) {
	c := env.e.C
	e := env.e
	if a.Nil && b.Nil {
		sfail("nil op nil")
	}
	if a.Nil {
		b = env.val(b)
		return e.C.LitU(0, b.T.Sort.W), b.T, b
	}
	if b.Nil {
		a = env.val(a)
		return a.T, e.C.LitU(0, a.T.Sort.W), a
	}
	if a.Num != nil && b.Num != nil {
		return c.Lit(a.Num, MathW), c.Lit(b.Num, MathW), &SVal{Math: true}
	}
	if a.Num != nil {
		b = env.val(b)
		if b.T.Sort.Kind != smt.KBV {
			sfail("number vs non-integer")
		}
		return c.Lit(a.Num, b.T.Sort.W), b.T, b
	}
	if b.Num != nil {
		a = env.val(a)
		if a.T.Sort.Kind != smt.KBV {
			sfail("number vs non-integer")
		}
		return a.T, c.Lit(b.Num, a.T.Sort.W), a
	}
	a, b = env.val(a), env.val(b)
	if a.T.Sort == b.T.Sort {
		if a.Math {
			return a.T, b.T, a
		}
		return a.T, b.T, pickTyped(a, b)
	}
	if a.Math || b.Math {
		return env.toMath(a), env.toMath(b), &SVal{Math: true}
	}
	if a.T.Sort.Kind == smt.KBV && b.T.Sort.Kind == smt.KBV {
		// widen the narrower (by its signedness)
		if a.T.Sort.W < b.T.Sort.W {
			return env.extTo(a, b.T.Sort.W), b.T, b
		}
		return a.T, env.extTo(b, a.T.Sort.W), a
	}
	sfail("operand sorts differ: %s vs %s", a.T.Sort, b.T.Sort)
	return nil, nil, nil
}

func pickTyped(a, b *SVal) *SVal {
	if a.Typ != nil {
		return a
	}
	return b
}

func (env *Env) extTo(v *SVal, w int) *smt.Term {
	if v.Typ != nil && isSigned(v.Typ) {
		return env.e.C.SExt(v.T, w)
	}
	return env.e.C.ZExt(v.T, w)
}

func (env *Env) toMath(v *SVal) *smt.Term {
	c := env.e.C
	if v.Num != nil {
		return c.Lit(v.Num, MathW)
	}
	if v.Math {
		return v.T
	}
	if v.T.Sort.Kind != smt.KBV {
		sfail("math() of non-integer")
	}
	if v.Typ != nil && isSigned(v.Typ) {
		return c.SExt(v.T, MathW)
	}
	return c.ZExt(v.T, MathW)
}

func (env *Env) binop(x *SExpr) *SVal {
	c := env.e.C
	boolT := types.Typ[types.Bool]
	switch x.Op {
	case "&&", "||", "==>", "<==>":
		a := env.val(env.ev(x.Args[0]))
		b := env.val(env.ev(x.Args[1]))
		if a.T == nil || b.T == nil || a.T.Sort != smt.Bool || b.T.Sort != smt.Bool {
			sfail("%s on non-bool operands", x.Op)
		}
		switch x.Op {
		case "&&":
			return &SVal{T: c.And(a.T, b.T), Typ: boolT}
		case "||":
			return &SVal{T: c.Or(a.T, b.T), Typ: boolT}
		case "==>":
			return &SVal{T: c.Implies(a.T, b.T), Typ: boolT}
		default:
			return &SVal{T: c.Eq(a.T, b.T), Typ: boolT}
		}
	}
	av, bv := env.ev(x.Args[0]), env.ev(x.Args[1])
	// slice == nil
	if (x.Op == "==" || x.Op == "!=") && (av.Nil || bv.Nil) {
		o := av
		if av.Nil {
			o = bv
		}
		o = env.val(o)
		if o.Typ != nil {
			if _, isSl := o.Typ.Underlying().(*types.Slice); isSl {
				r := c.Eq(env.e.slObj(o.T), env.e.bv64(0))
				if x.Op == "!=" {
					r = c.Not(r)
				}
				return &SVal{T: r, Typ: boolT}
			}
			if _, isP := o.Typ.Underlying().(*types.Pointer); isP {
				r := c.Eq(env.e.ptrObj(o.T), env.e.bv64(0))
				if x.Op == "!=" {
					r = c.Not(r)
				}
				return &SVal{T: r, Typ: boolT}
			}
		}
	}
	if av.Num != nil && bv.Num != nil {
		// constant folding
		r := new(big.Int)
		switch x.Op {
		case "+":
			return &SVal{Num: r.Add(av.Num, bv.Num)}
		case "-":
			return &SVal{Num: r.Sub(av.Num, bv.Num)}
		case "*":
			return &SVal{Num: r.Mul(av.Num, bv.Num)}
		case "/":
			return &SVal{Num: r.Div(av.Num, bv.Num)}
		case "<<":
			return &SVal{Num: r.Lsh(av.Num, uint(bv.Num.Uint64()))}
		}
	}
	a, b, res := env.unify(av, bv)
	signed := res.Typ != nil && isSigned(res.Typ) && !res.Math
	out := func(t *smt.Term) *SVal { return &SVal{T: t, Typ: res.Typ, Math: res.Math} }
	switch x.Op {
	case "==":
		return &SVal{T: c.Eq(a, b), Typ: boolT}
	case "!=":
		return &SVal{T: c.Ne(a, b), Typ: boolT}
	case "<", "<=", ">", ">=":
		if a.Sort.Kind != smt.KBV {
			sfail("ordering on non-integers")
		}
		op := map[string]string{"<": "lt", "<=": "le", ">": "gt", ">=": "ge"}[x.Op]
		if signed {
			op = "bvs" + op
		} else {
			op = "bvu" + op
		}
		return &SVal{T: c.Cmp(op, a, b), Typ: boolT}
	case "+":
		return out(c.BVOp("bvadd", a, b))
	case "-":
		return out(c.BVOp("bvsub", a, b))
	case "*":
		return out(c.BVOp("bvmul", a, b))
	case "/":
		if signed {
			return out(c.BVOp("bvsdiv", a, b))
		}
		return out(c.BVOp("bvudiv", a, b))
	case "%":
		if signed {
			return out(c.BVOp("bvsrem", a, b))
		}
		return out(c.BVOp("bvurem", a, b))
	case "&":
		return out(c.BVOp("bvand", a, b))
	case "|":
		return out(c.BVOp("bvor", a, b))
	case "^":
		return out(c.BVOp("bvxor", a, b))
	case "<<":
		return out(c.BVOp("bvshl", a, b))
	case ">>":
		return out(c.BVOp("bvlshr", a, b))
	}
	sfail("binop %s", x.Op)
	return nil
}

func (env *Env) quant(x *SExpr) *SVal {
	c := env.e.C
	sub := env.child()
	sub.inQuant = true
	var bound []*smt.Term
	var guards []*smt.Term
	for _, b := range x.Binders {
		t := env.e.P.resolveType(b.Type, env.pkg)
		if t == nil {
			sfail("unknown type %q in quantifier", b.Type)
		}
		bv := c.BoundVar(b.Name, sortOf(t))
		bound = append(bound, bv)
		sub.vars[b.Name] = &SVal{T: bv, Typ: t}
		// quantified pointers/maps range over non-nil, allocated objects of that type; slices over well-formed values
		switch u := t.Underlying().(type) {
		case *types.Pointer:
			guards = append(guards, env.e.typedObj(env.st, env.e.ptrObj(bv), u.Elem()))
		case *types.Map:
			guards = append(guards, c.And(c.Ne(bv, env.e.bv64(0)), c.Cmp("bvule", bv, env.st.Alloc),
				c.Eq(c.Select(env.e.objTypeHeap(env.st), bv), env.e.typeID(u))))
		default:
			if wf := env.e.wellFormed(bv, t, env.st); !wf.IsTrue() {
				guards = append(guards, wf)
			}
		}
	}
	body := sub.val(sub.ev(x.Args[0]))
	if body.T == nil || body.T.Sort != smt.Bool {
		sfail("quantifier body not boolean")
	}
	g := c.And(guards...)
	if x.Op == "forall" {
		return &SVal{T: c.Forall(bound, c.Implies(g, body.T)), Typ: types.Typ[types.Bool]}
	}
	return &SVal{T: c.Exists(bound, c.And(g, body.T)), Typ: types.Typ[types.Bool]}
}

func (env *Env) call(x *SExpr) *SVal {
	e := env.e
	c := e.C
	boolT := types.Typ[types.Bool]
	u64 := types.Typ[types.Uint64]
	arg := func(i int) *SVal {
		if i >= len(x.Args) {
			sfail("%s: missing argument %d", x.Name, i)
		}
		return env.val(env.ev(x.Args[i]))
	}
	if m, ok := env.macros[x.Name]; ok {
		if len(m.Params) != len(x.Args) {
			sfail("pred %s expects %d args", x.Name, len(m.Params))
		}
		if env.depth > 20 {
			sfail("pred expansion too deep")
		}
		sub := env.child()
		sub.depth = env.depth + 1
		for i, p := range m.Params {
			sub.vars[p] = env.ev(x.Args[i])
		}
		return sub.ev(m.Body)
	}
	switch x.Name {
	case "old":
		if env.old == nil {
			sfail("old() not available here")
		}
		sub := env.child()
		sub.st = env.old
		// locals resolve in the same frame but with old heaps
		return sub.val(sub.ev(x.Args[0]))
	case "len", "cap":
		v := arg(0)
		if v.Typ == nil {
			sfail("len of untyped")
		}
		switch v.Typ.Underlying().(type) {
		case *types.Slice:
			if x.Name == "len" {
				return &SVal{T: e.slLen(v.T), Typ: types.Typ[types.Int]}
			}
			return &SVal{T: e.slCap(v.T), Typ: types.Typ[types.Int]}
		case *types.Basic:
			return &SVal{T: c.App("strlen", smt.BV(64), v.T), Typ: types.Typ[types.Int]}
		case *types.Array:
			a := v.Typ.Underlying().(*types.Array)
			return &SVal{Num: big.NewInt(a.Len())}
		case *types.Map:
			mt := v.Typ.Underlying().(*types.Map)
			return &SVal{T: e.mapLen(env.st, mt, v.T), Typ: types.Typ[types.Int]}
		}
		sfail("len of %s", typeStr(v.Typ))
	case "fresh":
		v := arg(0)
		return &SVal{T: c.Cmp("bvugt", env.objOf(v), env.alloc0), Typ: boolT}
	case "kept", "keptexcept":
		// kept("heap", ...): every object that existed in the old state has its old content in the named heaps (objects
		// allocated since may hold anything). keptexcept("heap", p): the same, except for the object p points to.
		if env.old == nil {
			sfail("%s() needs an old state", x.Name)
		}
		var names []string
		var except *smt.Term
		for i, a := range x.Args {
			if a.Kind == "str" {
				names = append(names, a.Name)
				continue
			}
			if x.Name == "keptexcept" && i == len(x.Args)-1 {
				except = env.objOf(env.val(env.ev(a)))
				continue
			}
			sfail("%s(\"heap\", ...)", x.Name)
		}
		hs, err := e.P.expandHeaps(names)
		if err != nil {
			sfail("%s: %v", x.Name, err)
		}
		var cs []*smt.Term
		for _, h := range hs {
			e.ensureHeapKnown(h)
			cur, was := e.heap(env.st, h, e.hsorts[h]), e.heap(env.old, h, e.hsorts[h])
			if cur == was {
				continue
			}
			if !e.twoLevel(h) {
				cs = append(cs, c.Eq(cur, was))
				continue
			}
			if ws, ok := e.peelStores(cur, was, c.True()); ok {
				// quantifier-free: the current heap is a chain of stores over the old one; every object stored to
				// is new (or the exception)
				for _, w := range ws {
					allowed := c.Cmp("bvugt", w.obj, env.old.Alloc)
					if except != nil {
						allowed = c.Or(allowed, c.Eq(w.obj, except))
					}
					cs = append(cs, c.Implies(w.guard, allowed))
				}
				continue
			}
			o := c.BoundVar("o", smt.BV(64))
			g := c.And(c.Ne(o, e.bv64(0)), c.Cmp("bvule", o, env.old.Alloc))
			if except != nil {
				g = c.And(g, c.Ne(o, except))
			}
			cs = append(cs, c.Forall([]*smt.Term{o}, c.Implies(g, c.Eq(c.Select(cur, o), c.Select(was, o)))))
		}
		return &SVal{T: c.And(cs...), Typ: boolT}
	case "unchanged":
		// unchanged("heap name", ...): the named heaps (modifies-clause syntax) have their old() content
		if env.old == nil {
			sfail("unchanged() needs an old state")
		}
		var names []string
		for _, a := range x.Args {
			if a.Kind != "str" {
				sfail("unchanged(\"heap\", ...)")
			}
			names = append(names, a.Name)
		}
		hs, err := e.P.expandHeaps(names)
		if err != nil {
			sfail("unchanged: %v", err)
		}
		var eqs []*smt.Term
		for _, h := range hs {
			e.ensureHeapKnown(h)
			eqs = append(eqs, c.Eq(e.heap(env.st, h, e.hsorts[h]), e.heap(env.old, h, e.hsorts[h])))
		}
		return &SVal{T: c.And(eqs...), Typ: boolT}
	case "addrof":
		// addrof(b): the common.Address made of the first 20 bytes of b (len(b) >= 20 is the caller's business)
		v := arg(0)
		arr := e.byteRegion(env.st, e.slObj(v.T))
		parts := make([]*smt.Term, 0, 20)
		for j := 19; j >= 0; j-- {
			parts = append(parts, c.Select(arr, c.BVOp("bvadd", e.slOff(v.T), e.bv64(uint64(j)))))
		}
		return &SVal{T: c.Concat(parts...), Typ: e.P.resolveType("addr", nil)}
	case "strof":
		// strof(b): the string value of a byte slice (same abstraction as the Go conversion string(b))
		v := arg(0)
		arr := e.byteRegion(env.st, e.slObj(v.T))
		return &SVal{T: c.App("str_of_bytes", smt.BV(StrW), arr, e.slOff(v.T), e.slLen(v.T)), Typ: types.Typ[types.String]}
	case "strle":
		// strle(a, b): a <= b in the byte order of Go strings (uninterpreted total order, see the sort.Strings model)
		a, b := arg(0), arg(1)
		if !isString(a.Typ) || !isString(b.Typ) {
			sfail("strle() wants strings")
		}
		return &SVal{T: c.App("str_le", smt.Bool, env.val(a).T, env.val(b).T), Typ: boolT}
	case "strbyte":
		a, i := arg(0), arg(1)
		if !isString(a.Typ) {
			sfail("strbyte() wants a string")
		}
		return &SVal{T: c.App("strbyte", smt.BV(8), env.val(a).T, env.val(i).T), Typ: types.Typ[types.Uint8]}
	case "strlen":
		a := arg(0)
		if !isString(a.Typ) {
			sfail("strlen() wants a string")
		}
		return &SVal{T: c.App("strlen", smt.BV(64), env.val(a).T), Typ: u64}
	case "rangecount", "rangeseen":
		// rangecount(n): entries handed out so far by the n-th map iteration of the function; rangeseen(n, k): key k
		// was handed out by it
		if env.fr == nil {
			sfail("%s() outside a function body", x.Name)
		}
		if len(x.Args) < 1 || x.Args[0].Kind != "num" {
			sfail("%s(): the iteration ordinal must be a literal", x.Name)
		}
		nOrd := x.Args[0].Num.Int64()
		base := fmt.Sprintf("iter:%s#%d", fnName(env.fr.Fn), nOrd)
		if x.Name == "rangecount" {
			hs := e.hsorts[base+":count"]
			if hs == nil {
				sfail("no map iteration #%d in %s", nOrd, fnName(env.fr.Fn))
			}
			return &SVal{T: e.heap(env.st, base+":count", hs), Typ: u64}
		}
		hs := e.hsorts[base+":seen"]
		if hs == nil {
			sfail("no map iteration #%d in %s", nOrd, fnName(env.fr.Fn))
		}
		kv := env.val(env.ev(x.Args[1]))
		if kv.T == nil || kv.T.Sort.String() != hs.Idx.String() {
			sfail("rangeseen(): key has the wrong type")
		}
		return &SVal{T: c.Select(e.heap(env.st, base+":seen", hs), kv.T), Typ: boolT}
	case "loopfresh":
		// loopfresh(x): x was allocated during the loop (only inside loop invariants)
		if env.loopAlloc == nil {
			sfail("loopfresh() is only available in loop invariants")
		}
		v := arg(0)
		return &SVal{T: c.Cmp("bvugt", env.objOf(v), env.loopAlloc), Typ: boolT}
	case "allocated":
		v := arg(0)
		return &SVal{T: c.Cmp("bvule", env.objOf(v), env.st.Alloc), Typ: boolT}
	case "obj", "region":
		return &SVal{T: env.objOf(arg(0)), Typ: u64}
	case "off":
		v := arg(0)
		if _, ok := v.Typ.Underlying().(*types.Slice); ok {
			return &SVal{T: e.slOff(v.T), Typ: u64}
		}
		return &SVal{T: e.ptrIdx(v.T), Typ: u64}
	case "has":
		m := arg(0)
		mt, ok := m.Typ.Underlying().(*types.Map)
		if !ok {
			sfail("has() on non-map")
		}
		k := env.coerce(env.ev(x.Args[1]), mt.Key())
		dom, _ := e.mapRead(env.st, mt, m.T, k)
		return &SVal{T: dom, Typ: boolT}
	case "math":
		v := arg(0)
		return &SVal{T: env.toMath(v), Math: true}
	case "ite":
		cnd := arg(0)
		a, b, res := env.unify(env.ev(x.Args[1]), env.ev(x.Args[2]))
		return &SVal{T: c.Ite(cnd.T, a, b), Typ: res.Typ, Math: res.Math}
	case "word":
		// big-endian 256-bit word read from a byte slice at index i (64-bit index arithmetic wraps; guard with math bounds)
		s := arg(0)
		i := env.to64(arg(1))
		return &SVal{T: e.beWord(env.st, s.T, i, 32), Typ: e.P.u256Type()}
	case "bytes_eq":
		a, b := arg(0), arg(1)
		return &SVal{T: e.bytesEqual(env.st, a.T, b.T), Typ: boolT}
	case "sameslice":
		a, b := arg(0), arg(1)
		return &SVal{T: c.And(c.Eq(e.slObj(a.T), e.slObj(b.T)), c.Eq(e.slOff(a.T), e.slOff(b.T)), c.Eq(e.slLen(a.T), e.slLen(b.T))), Typ: boolT}
	case "uint64", "int", "int64", "uint8", "uint", "byte", "uint32", "int32":
		v := arg(0)
		var t types.Type
		switch x.Name {
		case "uint64", "uint":
			t = types.Typ[types.Uint64]
		case "int", "int64":
			t = types.Typ[types.Int64]
		case "uint8", "byte":
			t = types.Typ[types.Uint8]
		case "uint32":
			t = types.Typ[types.Uint32]
		case "int32":
			t = types.Typ[types.Int32]
		}
		w := widthOf(t)
		if v.Num != nil {
			return &SVal{T: c.Lit(v.Num, w), Typ: t}
		}
		if v.T.Sort.W >= w {
			return &SVal{T: c.Extract(w-1, 0, v.T), Typ: t}
		}
		return &SVal{T: env.extTo(v, w), Typ: t}
	case "u256":
		v := arg(0)
		if v.Num != nil {
			return &SVal{T: c.Lit(v.Num, 256), Typ: e.P.u256Type()}
		}
		if v.T.Sort.W >= 256 {
			return &SVal{T: c.Extract(255, 0, v.T), Typ: e.P.u256Type()}
		}
		return &SVal{T: c.ZExt(v.T, 256), Typ: e.P.u256Type()}
	case "be32":
		// [32]byte / Hash value -> its big-endian numeric value (u256)
		v := arg(0)
		return &SVal{T: e.bswap(v.T), Typ: e.P.u256Type()}
	case "bytei":
		// bytei(x, i): byte i (memory order) of a fixed-size byte array value ([N]byte, Hash, Address; element 0 in the low bits)
		v := arg(0)
		i := env.to64(arg(1))
		w := v.T.Sort.W
		sh := c.BVOp("bvmul", c.ZExt(c.Extract(31, 0, i), w), c.LitU(8, w))
		if w < 32 {
			sfail("bytei on narrow value")
		}
		return &SVal{T: c.Extract(7, 0, c.BVOp("bvlshr", v.T, sh)), Typ: types.Typ[types.Uint8]}
	case "hash":
		// hash(x): reinterpret a 256-bit ghost value as a common.Hash ([32]byte)
		v := arg(0)
		return &SVal{T: v.T, Typ: e.P.resolveType("hash", nil)}
	case "dyntype_is":
		v := arg(0)
		if x.Args[1].Kind != "str" {
			sfail("dyntype_is(x, \"type\")")
		}
		t := e.P.resolveType(x.Args[1].Name, env.pkg)
		if t == nil {
			sfail("unknown type %s", x.Args[1].Name)
		}
		return &SVal{T: c.Eq(e.ifaceType(v.T), e.typeID(t)), Typ: boolT}
	case "implements":
		v := arg(0)
		t := e.P.resolveType(x.Args[1].Name, env.pkg)
		if t == nil {
			sfail("unknown type %s", x.Args[1].Name)
		}
		return &SVal{T: e.implements(e.ifaceType(v.T), t), Typ: boolT}
	case "asptr":
		// asptr(x, "*pkg.T"): the pointer held by interface value x, read at static type *pkg.T (meaningful under
		// dyntype_is(x, "*pkg.T"))
		if len(x.Args) != 2 || x.Args[1].Kind != "str" {
			sfail("asptr(iface, \"*pkg.T\")")
		}
		v := arg(0)
		t := e.P.resolveType(x.Args[1].Name, nil)
		if t == nil {
			sfail("asptr: unknown type %s", x.Args[1].Name)
		}
		return &SVal{T: e.ifacePay(v.T), Typ: t}
	case "payload":
		v := arg(0)
		return &SVal{T: e.ifacePay(v.T), Typ: nil}
	case "errtext":
		v := arg(0)
		return &SVal{T: c.App("error.Error", smt.BV(StrW), v.T), Typ: types.Typ[types.String]}
	case "uf":
		// uf("name", "sort", args...) : uninterpreted function application shared with models
		if len(x.Args) < 2 || x.Args[0].Kind != "str" || x.Args[1].Kind != "str" {
			sfail("uf(\"name\", \"sort\", args...)")
		}
		var as []*smt.Term
		for i := 2; i < len(x.Args); i++ {
			v := arg(i)
			if v.T == nil {
				as = append(as, c.Lit(v.Num, 64))
			} else {
				as = append(as, v.T)
			}
		}
		s := parseSort(x.Args[1].Name)
		var gt types.Type
		if s == smt.Bool {
			gt = boolT
		}
		return &SVal{T: c.App(x.Args[0].Name, s, as...), Typ: gt}
	case "bigabs", "bigneg", "bigwide":
		v := arg(0)
		return e.bigField(env.st, v.T, x.Name)
	case "keccak_of":
		// keccak_of(slice): the model's hash of the slice's current content
		v := arg(0)
		return &SVal{T: e.keccakOf(env.st, v.T), Typ: e.P.u256Type()}
	}
	sfail("unknown spec function %s", x.Name)
	return nil
}

func parseSort(s string) *smt.Sort {
	s = strings.TrimSpace(s)
	if s == "bool" {
		return smt.Bool
	}
	if strings.HasPrefix(s, "bv") {
		var w int
		fmt.Sscanf(s[2:], "%d", &w)
		if w > 0 {
			return smt.BV(w)
		}
	}
	sfail("bad sort %q", s)
	return nil
}

func (env *Env) objOf(v *SVal) *smt.Term {
	e := env.e
	if v.Typ == nil {
		sfail("obj() of untyped")
	}
	switch v.Typ.Underlying().(type) {
	case *types.Pointer:
		return e.ptrObj(v.T)
	case *types.Slice:
		return e.slObj(v.T)
	case *types.Map:
		return v.T
	case *types.Interface:
		return e.ptrObj(e.ifacePay(v.T))
	}
	sfail("obj() of %s", typeStr(v.Typ))
	return nil
}
