package govc

import (
	"fmt"
	"go/token"
	"go/types"
	"math/big"
	"sort"
	"strings"

	"golang.org/x/tools/go/ssa"

	"verif/internal/smt"
)

// calleeInfo identifies what is being called.
type calleeInfo struct {
	name string // display / lookup name
	fn   *ssa.Function
	sig  *types.Signature
	bind []*Val
	mode string // static, invoke, dynamic, builtin
}

func ifaceMethodName(recv types.Type, m *types.Func) string {
	return "iface:" + typeStr(recv) + "." + m.Name()
}

func (e *Enc) call(fr *Frame, st *State, cc *ssa.CallCommon, ins ssa.Instruction, pos token.Pos) *Val {
	var args []*Val
	var argTypes []types.Type
	ci := calleeInfo{}
	if cc.IsInvoke() {
		recv := e.val(fr, cc.Value)
		if recv.T != nil {
			// a method call through a nil interface value panics
			e.safety(fr, st, "nil-interface-call", pos, e.C.Ne(e.ifaceType(recv.T), e.bv64(0)))
		}
		args = append(args, recv)
		argTypes = append(argTypes, cc.Value.Type())
		ci.mode = "invoke"
		ci.name = ifaceMethodName(cc.Value.Type(), cc.Method)
		ci.sig = cc.Method.Type().(*types.Signature)
	} else {
		switch v := cc.Value.(type) {
		case *ssa.Builtin:
			ci.mode = "builtin"
			ci.name = v.Name()
		case *ssa.Function:
			ci.mode = "static"
			ci.fn = v
			ci.name = fnName(v)
			ci.sig = v.Signature
		default:
			fv := e.val(fr, cc.Value)
			if fv.Fn != nil {
				ci.mode = "static"
				ci.fn = fv.Fn
				ci.bind = fv.Bind
				ci.name = fnName(fv.Fn)
				ci.sig = fv.Fn.Signature
			} else {
				ci.mode = "dynamic"
				ci.name = "fntype:" + typeStr(cc.Value.Type())
				// a package-level function variable (host callback registered by the embedder) is keyed by its name
				if ld, ok := cc.Value.(*ssa.UnOp); ok && ld.Op == token.MUL {
					if g, ok := ld.X.(*ssa.Global); ok {
						ci.name = "funcvar:" + qual(g.Pkg.Pkg) + "." + g.Name()
					}
				}
				ci.sig = cc.Value.Type().Underlying().(*types.Signature)
				args = append(args, fv)
				argTypes = append(argTypes, cc.Value.Type())
			}
		}
	}
	for _, a := range cc.Args {
		args = append(args, e.val(fr, a))
		argTypes = append(argTypes, a.Type())
	}
	if ci.mode == "builtin" {
		return e.builtin(fr, st, ci.name, cc, args, pos)
	}
	pre := st.clone()
	e.assertCalls(fr, st, ci, args, argTypes, pos)
	res := e.dispatch(fr, st, ci, cc, args, argTypes, pos)
	e.onCalls(fr, st, pre, ci, args, argTypes, res, cc)
	return res
}

func resultTypes(sig *types.Signature) []types.Type {
	var out []types.Type
	for i := 0; i < sig.Results().Len(); i++ {
		out = append(out, sig.Results().At(i).Type())
	}
	return out
}

func packResults(vals []*Val) *Val {
	switch len(vals) {
	case 0:
		return &Val{}
	case 1:
		return vals[0]
	}
	return &Val{Tup: vals}
}

func (e *Enc) dispatch(fr *Frame, st *State, ci calleeInfo, cc *ssa.CallCommon, args []*Val, argTypes []types.Type, pos token.Pos) *Val {
	// 1. built-in Go models of library functions
	if m, ok := externModels[ci.name]; ok {
		e.UsedExtern[ci.name] = true
		return m(e, fr, st, args, argTypes, pos)
	}
	// 2. contract
	if spec, ok := e.P.Specs[ci.name]; ok && (len(spec.Ensures) > 0 || len(spec.Requires) > 0 || len(spec.Invariants) > 0 || len(spec.Modifies) > 0 || spec.ModifiesAll || spec.Kind != "" || spec.Trusted) && !(ci.fn == e.Top && len(e.stack) == 0) {
		if ci.fn == nil || len(ci.fn.Blocks) == 0 || spec.Trusted || spec.Verify || spec.NoInline {
			e.UsedSpecs[ci.name] = true
			return e.applySpec(fr, st, spec, ci, args, argTypes, pos)
		}
	}
	// 3. library functions without a model of their own
	if (ci.fn == nil || !e.P.inModule(ci.fn)) && strings.HasPrefix(ci.name, "(*uint256.Int).") {
		// any other method of the uint256 library: over-approximated. By the library's convention a method assigns
		// its receiver and (DivMod-style) possibly other *Int arguments, reads its arguments and returns the
		// receiver; every *Int cell passed in becomes unknown, every non-pointer result is unknown.
		return e.havocU256Call(fr, st, ci, args, argTypes, pos)
	}
	if pureLibrary[ci.name] || strings.HasPrefix(ci.name, "(github.com/artela-network/aspect-core/types.JoinPointRunType).") {
		// value-level helpers of go-ethereum's common / crypto packages: they write no memory reachable from their
		// arguments; the result is unknown (a byte-slice result may be a new object or alias an argument)
		e.UsedExtern[ci.name+" (over-approximated: writes nothing, result unknown)"] = true
		e.bumpAlloc(st)
		var out []*Val
		for _, rt := range resultTypes(ci.sig) {
			t := e.C.Fresh("r:"+shortFn(ci.name), sortOf(rt))
			if wf := e.wellFormed(t, rt, st); !wf.IsTrue() {
				e.assume(st, wf)
			}
			out = append(out, &Val{T: t})
		}
		return packResults(out)
	}
	// 4. inline
	if ci.fn != nil && len(ci.fn.Blocks) > 0 {
		if !e.P.inModule(ci.fn) {
			unsupported("unmodelled callee %s (outside the module, no contract)", ci.name)
		}
		e.Inlined[ci.name] = true
		pid := joinID(fr.PathID, "inl:"+shortFn(ci.name))
		out, vals := e.encodeBody(ci.fn, args, ci.bind, st, fr, pid)
		st.Heaps, st.Alloc, st.Reach, st.Gen = out.Heaps, out.Alloc, out.Reach, out.Gen
		return packResults(vals)
	}
	unsupported("unmodelled callee %s", ci.name)
	return nil
}

func joinID(a, b string) string {
	if a == "" {
		return b
	}
	return a + "/" + b
}

func shortFn(n string) string {
	n = strings.TrimPrefix(n, "vm.")
	return n
}

func (p *Program) inModule(fn *ssa.Function) bool {
	pk := fn.Package()
	if pk == nil && fn.Parent() != nil {
		return p.inModule(fn.Parent())
	}
	if pk == nil {
		// instantiated generic / synthetic
		return false
	}
	return strings.HasPrefix(pk.Pkg.Path(), "github.com/artela-network/artela-evm")
}

// paramNames returns names for receiver+params of a callee.
func paramNames(spec *FuncSpec, ci calleeInfo) []string {
	if spec != nil && len(spec.ParamNames) > 0 {
		return spec.ParamNames
	}
	var out []string
	if ci.mode == "invoke" || ci.mode == "dynamic" {
		out = append(out, "self")
	} else if ci.sig.Recv() != nil {
		n := ci.sig.Recv().Name()
		if n == "" || n == "_" {
			n = "self"
		}
		out = append(out, n)
	}
	for i := 0; i < ci.sig.Params().Len(); i++ {
		n := ci.sig.Params().At(i).Name()
		if n == "" || n == "_" {
			n = fmt.Sprintf("$%d", i)
		}
		out = append(out, n)
	}
	return out
}

func resultNames(spec *FuncSpec, sig *types.Signature) []string {
	if spec != nil && len(spec.ResultNames) > 0 {
		return spec.ResultNames
	}
	var out []string
	n := sig.Results().Len()
	for i := 0; i < n; i++ {
		nm := sig.Results().At(i).Name()
		if nm == "" || nm == "_" {
			if n == 1 {
				nm = "result"
			} else {
				nm = fmt.Sprintf("result%d", i)
			}
		}
		out = append(out, nm)
	}
	return out
}

func (e *Enc) specEnv(fr *Frame, spec *FuncSpec, st, old *State, alloc0 *smt.Term, pkg *types.Package) *Env {
	env := &Env{e: e, fr: fr, vars: map[string]*SVal{}, st: st, old: old, alloc0: alloc0, pkg: pkg, macros: map[string]*Macro{}}
	for k, m := range e.P.Contr.Macros {
		env.macros[k] = m
	}
	if spec != nil {
		for k, m := range spec.Macros {
			env.macros[k] = m
		}
	}
	return env
}

func sigPkg(ci calleeInfo) *types.Package {
	if ci.fn != nil && ci.fn.Pkg != nil {
		return ci.fn.Pkg.Pkg
	}
	if ci.fn != nil && ci.fn.Parent() != nil && ci.fn.Parent().Pkg != nil {
		return ci.fn.Parent().Pkg.Pkg
	}
	if ci.sig != nil && ci.sig.Recv() != nil {
		return ci.sig.Recv().Pkg()
	}
	return nil
}

// applySpec uses a callee's contract at a call site (modular reasoning).
func (e *Enc) applySpec(fr *Frame, st *State, spec *FuncSpec, ci calleeInfo, args []*Val, argTypes []types.Type, pos token.Pos) *Val {
	c := e.C
	pkg := sigPkg(ci)
	if pkg == nil {
		pkg = e.Top.Pkg.Pkg
	}
	names := paramNames(spec, ci)
	bindArgs := func(env *Env) {
		for i, n := range names {
			if i < len(args) {
				a := args[i]
				if a.Loc != nil && a.T == nil {
					pt := argTypes[i].Underlying().(*types.Pointer)
					_ = pt
					env.vars[n] = &SVal{T: e.valTerm(a), Typ: argTypes[i]}
				} else if a.T != nil {
					env.vars[n] = &SVal{T: a.T, Typ: argTypes[i]}
				} else if a.Fn != nil {
					env.vars[n] = &SVal{T: e.funcID(a.Fn), Typ: argTypes[i]}
				}
				env.vars[fmt.Sprintf("$%d", i)] = env.vars[n]
			}
		}
	}
	// $top0: the receiver / first parameter of the function under verification. Contracts of external functions
	// that can re-enter the EVM (join points) use it to name the state they must preserve (they have no EVM argument).
	bindTop := func(env *Env) {
		if fr == nil {
			return
		}
		top := topFrame(fr)
		if len(top.Fn.Params) > 0 && len(top.Args) > 0 && top.Args[0].T != nil {
			env.vars["$top0"] = &SVal{T: top.Args[0].T, Typ: top.Fn.Params[0].Type()}
		}
	}
	envPre := e.specEnv(nil, spec, st, nil, st.Alloc, pkg)
	bindArgs(envPre)
	bindTop(envPre)
	for _, r := range spec.Requires {
		if !e.active(r.Props) {
			continue
		}
		t, err := envPre.EvalBool(r.Expr)
		if err != nil {
			unsupported("precondition %s of %s: %v", r.Label, spec.Name, err)
		}
		props := append(append([]string{}, e.Props...), r.Props...)
		if len(props) == 0 {
			// neither the caller's safety sweep nor the clause names a property: the obligation belongs to every
			// property the callee's contract serves (it must not fall outside all of them)
			for pr := range specProps(spec) {
				props = append(props, pr)
			}
			sort.Strings(props)
		}
		e.oblige(fr, st, "precondition", shortFn(spec.Name)+"."+r.Label, fmt.Sprintf("call of %s at %s establishes: %s", spec.Name, e.posOf(pos), r.Src), pos, t, props)
		e.assume(st, t)
	}
	pre := st.clone()
	// frame
	mods, err := e.P.expandHeaps(spec.Modifies)
	if err != nil {
		unsupported("%s: %v", spec.Name, err)
	}
	if spec.ModifiesAll {
		// "modifies *": the callee may write any heap, including heaps no instruction has touched yet
		mods = mods[:0]
		e.havocAll(st, fr)
	}
	if spec.ModifiesAll {
		// heaps the contract promises to keep on pre-existing objects (top-level kept("...") conjuncts of its exported
		// postconditions): instead of a quantified "forall o <= alloc: H'[o] == H[o]" the pre-call heap term itself is
		// kept - objects allocated by the callee then hold whatever that term holds at ids that were unallocated
		// before the call, i.e. unconstrained values, which over-approximates anything the callee may have put there
		for _, en := range spec.Ensures {
			if !e.active(en.Props) || en.Local {
				continue
			}
			for _, hn := range keptHeapNames(en.Expr) {
				hs, err := e.P.expandHeaps([]string{hn})
				if err != nil {
					continue
				}
				for _, h := range hs {
					if sort, ok := e.hsorts[h]; ok {
						e.setHeap(st, h, e.heap(pre, h, sort))
					} else if srt := e.P.heapSortByName(h); srt != nil {
						e.hsorts[h] = srt
						e.setHeap(st, h, e.heap(pre, h, srt))
					}
				}
			}
		}
	}
	for _, h := range mods {
		e.ensureHeapKnown(h)
		e.havocHeap(st, h)
	}
	// kind shorthands
	rts := resultTypes(ci.sig)
	var results []*Val
	e.bumpAlloc(st)
	switch spec.Kind {
	case "pure", "purestate", "mutating", "event", "fresh", "":
	default:
		unsupported("unknown spec kind %q for %s", spec.Kind, spec.Name)
	}
	var ufArgs []*smt.Term
	if spec.Kind == "purestate" || spec.Kind == "mutating" {
		ufArgs = append(ufArgs, e.ghost(pre, "statever", smt.BV(64)))
	}
	for _, a := range args {
		ufArgs = append(ufArgs, e.valTerm(a))
	}
	for i, rt := range rts {
		var t *smt.Term
		if spec.Kind == "pure" || spec.Kind == "purestate" || spec.Kind == "mutating" {
			t = c.App(fmt.Sprintf("%s#%d", spec.Name, i), sortOf(rt), ufArgs...)
		} else {
			t = c.Fresh("r:"+shortFn(spec.Name), sortOf(rt))
			// a slice result whose contract promises "off(result) == 0" is built with a literal zero offset, so that
			// element terms are select(region, j) rather than select(region, off + j): quantifier patterns over
			// interpreted bvadd make the solvers' instantiation unstable
			if _, isSl := rt.Underlying().(*types.Slice); isSl && e.promisesZeroOffset(spec, ci.sig, i) {
				t = e.mkSlice(e.slObj(t), e.bv64(0), e.slLen(t), e.slCap(t))
			}
		}
		if wf := e.wellFormed(t, rt, st); !wf.IsTrue() {
			e.assume(st, wf)
		}
		results = append(results, &Val{T: t})
	}
	if ci.mode == "invoke" || ci.mode == "dynamic" || spec.Trusted {
		// call log for replay: which host calls happen on the counterexample path, with which arguments and results
		e.callSeq++
		tag := fmt.Sprintf("call%02d:%s", e.callSeq, strings.TrimPrefix(strings.TrimPrefix(spec.Name, "iface:"), "fntype:"))
		e.addWitness(tag+":reached", st.Reach)
		for i, a := range args {
			if i == 0 && (ci.mode == "invoke" || ci.mode == "dynamic") {
				continue
			}
			if a.T != nil && a.T.Sort.Kind != smt.KArray {
				e.addWitness(fmt.Sprintf("%s:arg%d", tag, i), a.T)
			}
		}
		for i, r := range results {
			e.addWitness(fmt.Sprintf("%s:res%d", tag, i), r.T)
		}
	}
	if spec.Kind == "mutating" {
		nv := c.App(spec.Name+"!state", smt.BV(64), ufArgs...)
		e.setGhost(st, "statever", nv)
	}
	if spec.Kind == "purestate" || spec.Kind == "mutating" {
		e.work(st, e.bv64(1))
	}
	if ci.fn != nil && len(ci.fn.Blocks) > 0 {
		// a callee with a body does work of its own: unknown unless its contract bounds it (ensures over the ghost work)
		w := e.ghost(st, "work", smt.BV(128))
		nw := c.Fresh("work", smt.BV(128))
		e.assume(st, c.And(c.Cmp("bvuge", nw, w), c.Cmp("bvult", nw, c.Lit(new(big.Int).Lsh(big.NewInt(1), 101), 128))))
		e.setGhost(st, "work", nw)
	}
	envPost := e.specEnv(nil, spec, st, pre, pre.Alloc, pkg)
	bindArgs(envPost)
	bindTop(envPost)
	rn := resultNames(spec, ci.sig)
	for i, n := range rn {
		if i < len(results) {
			envPost.vars[n] = &SVal{T: results[i].T, Typ: rts[i]}
			envPost.vars[fmt.Sprintf("$r%d", i)] = envPost.vars[n]
			if i == 0 {
				envPost.vars["$r"] = envPost.vars[n]
			}
		}
	}
	post := append([]*Clause{}, spec.Ensures...)
	// data-structure invariants of the callee are only interesting to other operations of the same data structure
	// (functions that carry invariants themselves); elsewhere they would only clutter every query
	if fr != nil {
		if ts := topFrame(fr).spec; ts != nil && len(ts.Invariants) > 0 {
			post = append(append([]*Clause{}, spec.Invariants...), post...)
		}
	}
	for _, en := range post {
		if !e.active(en.Props) || en.Local {
			continue
		}
		t, err := envPost.EvalBool(en.Expr)
		if err != nil {
			// a postcondition over the callee's own ghost monitors has no meaning for the caller: skip it
			internal := false
			for _, g := range spec.Ghosts {
				if strings.Contains(err.Error(), "unknown identifier \""+g.Name+"\"") {
					internal = true
				}
			}
			if internal {
				continue
			}
			unsupported("postcondition %s of %s at call site: %v", en.Label, spec.Name, err)
		}
		e.assume(st, t)
	}
	return packResults(results)
}

// promisesZeroOffset: the (active, exported) ensures of spec contain the top-level conjunct off(<result i>) == 0.
func (e *Enc) promisesZeroOffset(spec *FuncSpec, sig *types.Signature, i int) bool {
	rn := resultNames(spec, sig)
	var name string
	if i < len(rn) {
		name = rn[i]
	}
	var hit func(x *SExpr) bool
	hit = func(x *SExpr) bool {
		if x == nil {
			return false
		}
		if x.Kind == "binop" && x.Op == "&&" {
			return hit(x.Args[0]) || hit(x.Args[1])
		}
		if x.Kind == "binop" && x.Op == "==" && len(x.Args) == 2 {
			l, r := x.Args[0], x.Args[1]
			if l.Kind == "call" && l.Name == "off" && len(l.Args) == 1 && l.Args[0].Kind == "ident" && r.Kind == "num" && r.Num.Sign() == 0 {
				n := l.Args[0].Name
				return n == name || n == fmt.Sprintf("$r%d", i) || (i == 0 && n == "$r")
			}
		}
		return false
	}
	for _, en := range spec.Ensures {
		if e.active(en.Props) && !en.Local && hit(en.Expr) {
			return true
		}
	}
	return false
}

var pureLibrary = map[string]bool{
	"strings.HasPrefix": true, "strings.HasSuffix": true, "strings.Contains": true, "strings.TrimPrefix": true,
	"fmt.Sprintf": true, "fmt.Errorf": true, "fmt.Sprint": true, "strings.ToLower": true, "strings.ToUpper": true,
	"(github.com/artela-network/aspect-core/types.JoinPointRunType).String": true,
	"github.com/ethereum/go-ethereum/log.Error":                             true, "github.com/ethereum/go-ethereum/log.Warn": true,
	"github.com/ethereum/go-ethereum/log.Info": true, "github.com/ethereum/go-ethereum/log.Debug": true,
	"common.RightPadBytes": true, "common.LeftPadBytes": true, "common.BigToHash": true, "common.BigToAddress": true,
	"common.HexToAddress": true, "common.HexToHash": true, "common.Bytes2Hex": true,
	"github.com/ethereum/go-ethereum/crypto.CreateAddress":  true,
	"github.com/ethereum/go-ethereum/crypto.CreateAddress2": true,
	"github.com/ethereum/go-ethereum/crypto.Keccak256Hash":  true,
	"github.com/ethereum/go-ethereum/crypto.Keccak256":      true,
	"(*uint256.Int).ToBig":                                  true, "(*uint256.Int).Bytes": true, "(*uint256.Int).Bytes32": true, "(*uint256.Int).Bytes20": true,
	"(*math/big.Int).Sign": true, "(*math/big.Int).BitLen": true, "(*math/big.Int).Cmp": true, "(*math/big.Int).Uint64": true,
	"(*math/big.Int).IsUint64": true,
}

func (e *Enc) havocU256Call(fr *Frame, st *State, ci calleeInfo, args []*Val, argTypes []types.Type, pos token.Pos) *Val {
	c := e.C
	e.UsedExtern[ci.name+" (over-approximated: assigns every *uint256.Int it is given)"] = true
	for i, a := range args {
		if i >= len(argTypes) {
			break
		}
		if pt, ok := argTypes[i].Underlying().(*types.Pointer); ok && isU256(pt.Elem()) {
			e.writeU256(fr, st, a, c.Fresh("u256:"+shortFn(ci.name), smt.BV(256)), pos)
		}
	}
	rts := resultTypes(ci.sig)
	var out []*Val
	for _, rt := range rts {
		if pt, ok := rt.Underlying().(*types.Pointer); ok && isU256(pt.Elem()) {
			out = append(out, args[0])
			continue
		}
		t := c.Fresh("r:"+shortFn(ci.name), sortOf(rt))
		if wf := e.wellFormed(t, rt, st); !wf.IsTrue() {
			e.assume(st, wf)
		}
		out = append(out, &Val{T: t})
	}
	return packResults(out)
}

// keptHeapNames: the heap names of the top-level kept("...") conjuncts of a postcondition.
func keptHeapNames(x *SExpr) []string {
	if x == nil {
		return nil
	}
	if x.Kind == "binop" && x.Op == "&&" {
		return append(keptHeapNames(x.Args[0]), keptHeapNames(x.Args[1])...)
	}
	if x.Kind == "call" && x.Name == "kept" {
		var out []string
		for _, a := range x.Args {
			if a.Kind == "str" {
				out = append(out, a.Name)
			}
		}
		return out
	}
	return nil
}

func (e *Enc) ensureHeapKnown(h string) {
	if _, ok := e.hsorts[h]; ok {
		return
	}
	if s := e.P.heapSortByName(h); s != nil {
		e.hsorts[h] = s
		return
	}
	unsupported("modifies: cannot determine the sort of heap %s", h)
}

// bumpAlloc models that a callee may have allocated objects.
func (e *Enc) bumpAlloc(st *State) {
	c := e.C
	na := c.Fresh("alloc", smt.BV(64))
	e.assume(st, c.And(c.Cmp("bvuge", na, st.Alloc), c.Cmp("bvult", na, e.bv64(1<<62))))
	st.Alloc = na
}

// ---------- ghost state ----------

func (e *Enc) ghost(st *State, name string, s *smt.Sort) *smt.Term {
	return e.heap(st, "ghost:"+name, s)
}

func (e *Enc) setGhost(st *State, name string, v *smt.Term) {
	e.setHeap(st, "ghost:"+name, v)
}

// work adds n (BV64) to the ghost work counter (BV128, cannot wrap in practice).
func (e *Enc) work(st *State, n *smt.Term) {
	c := e.C
	w := e.ghost(st, "work", smt.BV(128))
	e.setGhost(st, "work", c.BVOp("bvadd", w, c.ZExt(n, 128)))
}

func (fr *Frame) ghostName(name string) string { return "lghost:" + name }

func (fr *Frame) localGhostSort(name string) (*smt.Sort, bool) {
	top := fr
	for top.Parent != nil {
		top = top.Parent
	}
	if top.spec == nil {
		return nil, false
	}
	for _, g := range top.spec.Ghosts {
		if g.Name == name {
			return g.Sort, true
		}
	}
	return nil, false
}

func (e *Enc) initLocalGhosts(fr *Frame, st *State) {
	if fr.Parent != nil || fr.spec == nil {
		return
	}
	env := e.specEnv(fr, fr.spec, st, nil, st.Alloc, fr.Fn.Pkg.Pkg)
	e.bindParams(env, fr)
	for _, g := range fr.spec.Ghosts {
		t, _, err := env.EvalTerm(g.Init)
		if err != nil {
			unsupported("ghost %s init: %v", g.Name, err)
		}
		if t == nil {
			// nil: the zero value of the ghost's sort
			if g.Sort == smt.Bool {
				t = e.C.False()
			} else {
				t = e.C.LitU(0, g.Sort.W)
			}
		}
		if t.Sort != g.Sort {
			if t.Sort.Kind == smt.KBV && g.Sort.Kind == smt.KBV {
				t = e.C.ZExt(t, g.Sort.W)
			} else {
				unsupported("ghost %s init sort %s vs %s", g.Name, t.Sort, g.Sort)
			}
		}
		e.setHeap(st, fr.ghostName(g.Name), t)
	}
}

func (e *Enc) bindParams(env *Env, fr *Frame) {
	// by source name, and by the names of the contract header when it lists exactly the parameters (positional)
	var alias []string
	if fr.spec != nil && len(fr.spec.ParamNames) == len(fr.Fn.Params) {
		alias = fr.spec.ParamNames
	}
	for i, p := range fr.Fn.Params {
		v := fr.Vals[p]
		if v == nil {
			continue
		}
		var sv *SVal
		if v.T != nil {
			sv = &SVal{T: v.T, Typ: p.Type()}
		} else if v.Loc != nil {
			sv = &SVal{T: e.valTerm(v), Typ: p.Type()}
		}
		if sv == nil {
			continue
		}
		env.vars[p.Name()] = sv
		if alias != nil && alias[i] != "" && alias[i] != "_" {
			env.vars[alias[i]] = sv
		}
	}
}

func topFrame(fr *Frame) *Frame {
	for fr.Parent != nil {
		fr = fr.Parent
	}
	return fr
}

func (e *Enc) hookEnv(fr *Frame, st, old *State, ci calleeInfo, args []*Val, argTypes []types.Type, res *Val) *Env {
	top := topFrame(fr)
	env := e.specEnv(top, top.spec, st, old, e.Alloc0, top.Fn.Pkg.Pkg)
	e.bindParams(env, top)
	for i, a := range args {
		var sv *SVal
		if a.T != nil {
			sv = &SVal{T: a.T, Typ: argTypes[i]}
		} else if a.Loc != nil {
			sv = &SVal{T: e.valTerm(a), Typ: argTypes[i]}
		} else {
			continue
		}
		env.vars[fmt.Sprintf("$%d", i)] = sv
	}
	if res != nil && ci.sig != nil {
		rts := resultTypes(ci.sig)
		if res.Tup != nil {
			for i, r := range res.Tup {
				if r.T != nil && i < len(rts) {
					env.vars[fmt.Sprintf("$r%d", i)] = &SVal{T: r.T, Typ: rts[i]}
				}
			}
		} else if res.T != nil && len(rts) == 1 {
			env.vars["$r"] = &SVal{T: res.T, Typ: rts[0]}
			env.vars["$r0"] = env.vars["$r"]
		}
	}
	return env
}

func matchCallee(pattern, name string) bool {
	if strings.HasSuffix(pattern, "$") {
		return strings.HasSuffix(name, strings.TrimSuffix(pattern, "$"))
	}
	return strings.Contains(name, pattern)
}

func (e *Enc) assertCalls(fr *Frame, st *State, ci calleeInfo, args []*Val, argTypes []types.Type, pos token.Pos) {
	top := topFrame(fr)
	if top.spec == nil {
		return
	}
	for _, ac := range top.spec.AssertCalls {
		if !matchCallee(ac.Callee, ci.name) || !e.active(ac.Props) {
			continue
		}
		env := e.hookEnv(fr, st, nil, ci, args, argTypes, nil)
		t, err := env.EvalBool(ac.Expr)
		if err != nil {
			unsupported("assertcall %s: %v", ac.Label, err)
		}
		e.oblige(fr, st, "callsite", ac.Label, fmt.Sprintf("at every call of %s (%s): %s", ac.Callee, e.posOf(pos), ac.Src), pos, t, ac.Props)
		e.assume(st, t)
	}
}

func (e *Enc) onCalls(fr *Frame, st, pre *State, ci calleeInfo, args []*Val, argTypes []types.Type, res *Val, cc *ssa.CallCommon) {
	top := topFrame(fr)
	if top.spec == nil {
		return
	}
	for _, oc := range top.spec.OnCalls {
		if !matchCallee(oc.Callee, ci.name) {
			continue
		}
		env := e.hookEnv(fr, st, pre, ci, args, argTypes, res)
		// simultaneous assignment: evaluate all first
		var vals []*smt.Term
		for _, as := range oc.Assigns {
			gs, ok := top.localGhostSort(as.Name)
			if !ok {
				unsupported("oncall assigns unknown ghost %s", as.Name)
			}
			t, _, err := env.EvalTerm(as.Expr)
			if err != nil {
				unsupported("oncall %s: %v", as.Src, err)
			}
			if t.Sort != gs {
				if t.Sort.Kind == smt.KBV && gs.Kind == smt.KBV {
					if t.Sort.W > gs.W {
						t = e.C.Extract(gs.W-1, 0, t)
					} else {
						t = e.C.ZExt(t, gs.W)
					}
				} else {
					unsupported("oncall %s: sort %s vs ghost %s", as.Src, t.Sort, gs)
				}
			}
			vals = append(vals, t)
		}
		for i, as := range oc.Assigns {
			e.setHeap(st, top.ghostName(as.Name), vals[i])
		}
	}
}

// ---------- builtins ----------

func (e *Enc) builtin(fr *Frame, st *State, name string, cc *ssa.CallCommon, args []*Val, pos token.Pos) *Val {
	c := e.C
	switch name {
	case "len", "cap":
		t := cc.Args[0].Type()
		switch u := t.Underlying().(type) {
		case *types.Slice:
			if name == "len" {
				return &Val{T: e.slLen(args[0].T)}
			}
			return &Val{T: e.slCap(args[0].T)}
		case *types.Basic:
			return &Val{T: c.App("strlen", smt.BV(64), args[0].T)}
		case *types.Map:
			return &Val{T: e.mapLen(st, u, args[0].T)}
		case *types.Pointer:
			if a, ok := u.Elem().Underlying().(*types.Array); ok {
				return &Val{T: e.bv64(uint64(a.Len()))}
			}
		case *types.Array:
			return &Val{T: e.bv64(uint64(u.Len()))}
		}
		unsupported("len of %s", t)
	case "append":
		return e.appendOp(fr, st, cc, args, pos)
	case "copy":
		return e.copyOp(fr, st, cc, args, pos)
	case "delete":
		mt := cc.Args[0].Type().Underlying().(*types.Map)
		ds, _ := e.mapSorts(mt)
		dh := e.heap(st, mapDomHeap(mt), ds)
		m := args[0].T
		k := e.valTerm(args[1])
		e.setHeap(st, mapDomHeap(mt), c.Store(dh, m, c.Store(c.Select(dh, m), k, c.False())))
		return &Val{}
	case "panic":
		e.oblige(fr, st, "safety", "panic", "explicit panic unreachable at "+e.posOf(pos), pos, c.False(), e.Props)
		st.Reach = c.False()
		return &Val{}
	case "print", "println":
		return &Val{}
	case "min", "max":
		if len(args) == 2 {
			t := cc.Args[0].Type()
			op := "bvult"
			if isSigned(t) {
				op = "bvslt"
			}
			lt := c.Cmp(op, args[0].T, args[1].T)
			if name == "min" {
				return &Val{T: c.Ite(lt, args[0].T, args[1].T)}
			}
			return &Val{T: c.Ite(lt, args[1].T, args[0].T)}
		}
	}
	unsupported("builtin %s", name)
	return nil
}

// mapLen: number of keys, as an uninterpreted function of the domain set.
func (e *Enc) mapLen(st *State, mt *types.Map, m *smt.Term) *smt.Term {
	c := e.C
	ds, _ := e.mapSorts(mt)
	dh := e.heap(st, mapDomHeap(mt), ds)
	dom := c.Select(dh, m)
	n := c.App("maplen:"+typeStr(mt.Key()), smt.BV(64), dom)
	// len == 0 iff empty; nil map has len 0
	e.assume(st, c.Cmp("bvult", n, e.bv64(1<<40)))
	e.addAxiomOnce("maplen-empty:"+typeStr(mt.Key()), c.Eq(c.App("maplen:"+typeStr(mt.Key()), smt.BV(64), c.ConstArray(ds.Elem, c.False())), e.bv64(0)))
	return c.Ite(c.Eq(m, e.bv64(0)), e.bv64(0), n)
}

// regionOf returns the per-object content array of heap hn at obj.
func (e *Enc) regionOf(st *State, hn string, hs *smt.Sort, obj *smt.Term) *smt.Term {
	return e.C.Select(e.heap(st, hn, hs), obj)
}

// copyElems copies n elements of type elemT from (sObj,sOff) in state src to (dObj,dOff) in st.
// Content outside the destination range is preserved. Memmove semantics (source read from src state).
func (e *Enc) copyElems(st, src *State, elemT types.Type, dObj, dOff, sObj, sOff, n *smt.Term) {
	c := e.C
	sl := slotsOf(elemT)
	if sl != 1 {
		unsupported("copy of multi-slot elements %s", typeStr(elemT))
	}
	for hn, hs := range e.heapsOfType(elemT) {
		h := e.heap(st, hn, hs)
		sreg := e.regionOf(src, hn, hs, sObj)
		dreg := c.Select(h, dObj)
		if n.IsLit() && n.Val.IsUint64() && n.Val.Uint64() <= 32 {
			k := int(n.Val.Uint64())
			nr := dreg
			for i := 0; i < k; i++ {
				off := e.bv64(uint64(i))
				nr = c.Store(nr, c.BVOp("bvadd", dOff, off), c.Select(sreg, c.BVOp("bvadd", sOff, off)))
			}
			e.setHeap(st, hn, c.Store(h, dObj, nr))
			continue
		}
		nr := c.Fresh("copy:"+hn, hs.Elem)
		i := c.BoundVar("i", smt.BV(64))
		inr := c.And(c.Cmp("bvuge", i, dOff), c.Cmp("bvult", c.BVOp("bvsub", i, dOff), n))
		body := c.Ite(inr,
			c.Eq(c.Select(nr, i), c.Select(sreg, c.BVOp("bvadd", sOff, c.BVOp("bvsub", i, dOff)))),
			c.Eq(c.Select(nr, i), c.Select(dreg, i)))
		e.assume(st, c.Forall([]*smt.Term{i}, body))
		e.setHeap(st, hn, c.Store(h, dObj, nr))
	}
	e.work(st, n)
}

func (e *Enc) appendOp(fr *Frame, st *State, cc *ssa.CallCommon, args []*Val, pos token.Pos) *Val {
	c := e.C
	s := args[0].T
	stype := cc.Args[0].Type().Underlying().(*types.Slice)
	elemT := stype.Elem()
	var tObj, tOff, tLen *smt.Term
	if isString(cc.Args[1].Type()) {
		// append([]byte, string...)
		b := e.bytesOfString(st, args[1].T, elemT)
		tObj, tOff, tLen = e.slObj(b), e.slOff(b), e.slLen(b)
	} else {
		t := args[1].T
		tObj, tOff, tLen = e.slObj(t), e.slOff(t), e.slLen(t)
	}
	sObj, sOff, sLen, sCap := e.slObj(s), e.slOff(s), e.slLen(s), e.slCap(s)
	newLen := c.BVOp("bvadd", sLen, tLen)
	inplace := c.Cmp("bvule", newLen, sCap)
	pre := st.clone()
	// in-place branch
	a := st.clone()
	a.Reach = c.And(st.Reach, inplace)
	e.copyElems(a, pre, elemT, sObj, c.BVOp("bvadd", sOff, sLen), tObj, tOff, tLen)
	resA := e.mkSlice(sObj, sOff, newLen, sCap)
	// growth branch
	b := st.clone()
	b.Reach = c.And(st.Reach, c.Not(inplace))
	nObj := e.allocObj(b, elemT)
	// growth copies the existing elements: amortised O(1) per appended element (capacity doubles), so the ghost
	// work counter charges only the appended elements, as in the in-place branch
	wBefore := e.ghost(b, "work", smt.BV(128))
	e.copyElems(b, pre, elemT, nObj, e.bv64(0), sObj, sOff, sLen)
	e.setGhost(b, "work", wBefore)
	e.copyElems(b, pre, elemT, nObj, sLen, tObj, tOff, tLen)
	nCap := c.Fresh("appendcap", smt.BV(64))
	// an allocation of 2^40 or more elements does not succeed (listed assumption)
	e.assume(b, c.And(c.Cmp("bvuge", nCap, newLen), c.Cmp("bvult", nCap, e.bv64(1<<40))))
	resB := e.mkSlice(nObj, e.bv64(0), newLen, nCap)
	m := e.mergeStates(a.Reach, a, b)
	st.Heaps, st.Alloc, st.Reach, st.Gen = m.Heaps, m.Alloc, m.Reach, m.Gen
	return &Val{T: c.Ite(inplace, resA, resB)}
}

func (e *Enc) copyOp(fr *Frame, st *State, cc *ssa.CallCommon, args []*Val, pos token.Pos) *Val {
	c := e.C
	d := args[0].T
	dt := cc.Args[0].Type().Underlying().(*types.Slice)
	var sObj, sOff, sLen *smt.Term
	if isString(cc.Args[1].Type()) {
		b := e.bytesOfString(st, args[1].T, dt.Elem())
		sObj, sOff, sLen = e.slObj(b), e.slOff(b), e.slLen(b)
	} else {
		s := args[1].T
		sObj, sOff, sLen = e.slObj(s), e.slOff(s), e.slLen(s)
	}
	n := c.Ite(c.Cmp("bvult", e.slLen(d), sLen), e.slLen(d), sLen)
	pre := st.clone()
	e.copyElems(st, pre, dt.Elem(), e.slObj(d), e.slOff(d), sObj, sOff, n)
	return &Val{T: n}
}
