package govc

import (
	"fmt"
	"go/token"
	"go/types"
	"math/big"
	"strings"

	"verif/internal/smt"
)

type externModel func(e *Enc, fr *Frame, st *State, args []*Val, argTypes []types.Type, pos token.Pos) *Val

var externModels map[string]externModel

func init() {
	externModels = map[string]externModel{}
	u := "(*uint256.Int)."
	reg := func(n string, m externModel) { externModels[n] = m }

	// go-ethereum common/math: overflow-checked uint64 arithmetic
	safe := func(name, op, ovf string) {
		reg("common/math."+name, func(e *Enc, fr *Frame, st *State, a []*Val, _ []types.Type, pos token.Pos) *Val {
			c := e.C
			x, y := a[0].T, a[1].T
			var r, o *smt.Term
			switch op {
			case "bvadd":
				r = c.BVOp("bvadd", x, y)
				o = c.Cmp("bvult", r, x)
			case "bvsub":
				r = c.BVOp("bvsub", x, y)
				o = c.Cmp("bvugt", y, x)
			default:
				wide := c.BVOp("bvmul", c.ZExt(x, 128), c.ZExt(y, 128))
				r = c.Extract(63, 0, wide)
				o = c.Ne(c.Extract(127, 64, wide), c.LitU(0, 64))
			}
			return &Val{Tup: []*Val{{T: r}, {T: o}}}
		})
	}
	safe("SafeAdd", "bvadd", "")
	safe("SafeSub", "bvsub", "")
	safe("SafeMul", "bvmul", "")
	reg("uint256.NewInt", func(e *Enc, fr *Frame, st *State, a []*Val, _ []types.Type, pos token.Pos) *Val {
		return &Val{T: e.newU256(st, e.C.ZExt(a[0].T, 256))}
	})
	// receiver-assigning binary ops: z.Op(x, y) -> z
	bin := func(name string, f func(e *Enc, x, y *smt.Term) *smt.Term) {
		reg(u+name, func(e *Enc, fr *Frame, st *State, a []*Val, _ []types.Type, pos token.Pos) *Val {
			x, y := e.readU256(fr, st, a[1], pos), e.readU256(fr, st, a[2], pos)
			e.writeU256(fr, st, a[0], f(e, x, y), pos)
			return a[0]
		})
	}
	bin("Add", func(e *Enc, x, y *smt.Term) *smt.Term { return e.C.BVOp("bvadd", x, y) })
	bin("Sub", func(e *Enc, x, y *smt.Term) *smt.Term { return e.C.BVOp("bvsub", x, y) })
	bin("Mul", func(e *Enc, x, y *smt.Term) *smt.Term { return e.C.BVOp("bvmul", x, y) })
	bin("And", func(e *Enc, x, y *smt.Term) *smt.Term { return e.C.BVOp("bvand", x, y) })
	bin("Or", func(e *Enc, x, y *smt.Term) *smt.Term { return e.C.BVOp("bvor", x, y) })
	bin("Xor", func(e *Enc, x, y *smt.Term) *smt.Term { return e.C.BVOp("bvxor", x, y) })
	bin("Div", func(e *Enc, x, y *smt.Term) *smt.Term {
		c := e.C
		return c.Ite(c.Eq(y, c.LitU(0, 256)), c.LitU(0, 256), c.BVOp("bvudiv", x, y))
	})
	bin("Mod", func(e *Enc, x, y *smt.Term) *smt.Term {
		c := e.C
		return c.Ite(c.Eq(y, c.LitU(0, 256)), c.LitU(0, 256), c.BVOp("bvurem", x, y))
	})
	reg(u+"Not", func(e *Enc, fr *Frame, st *State, a []*Val, _ []types.Type, pos token.Pos) *Val {
		x := e.readU256(fr, st, a[1], pos)
		e.writeU256(fr, st, a[0], e.C.BVNot(x), pos)
		return a[0]
	})
	reg(u+"Set", func(e *Enc, fr *Frame, st *State, a []*Val, _ []types.Type, pos token.Pos) *Val {
		x := e.readU256(fr, st, a[1], pos)
		e.writeU256(fr, st, a[0], x, pos)
		return a[0]
	})
	reg(u+"Clone", func(e *Enc, fr *Frame, st *State, a []*Val, _ []types.Type, pos token.Pos) *Val {
		return &Val{T: e.newU256(st, e.readU256(fr, st, a[0], pos))}
	})
	reg(u+"Clear", func(e *Enc, fr *Frame, st *State, a []*Val, _ []types.Type, pos token.Pos) *Val {
		e.writeU256(fr, st, a[0], e.C.LitU(0, 256), pos)
		return a[0]
	})
	reg(u+"SetOne", func(e *Enc, fr *Frame, st *State, a []*Val, _ []types.Type, pos token.Pos) *Val {
		e.writeU256(fr, st, a[0], e.C.LitU(1, 256), pos)
		return a[0]
	})
	reg(u+"SetUint64", func(e *Enc, fr *Frame, st *State, a []*Val, _ []types.Type, pos token.Pos) *Val {
		e.writeU256(fr, st, a[0], e.C.ZExt(a[1].T, 256), pos)
		return a[0]
	})
	cmp := func(name, op string) {
		reg(u+name, func(e *Enc, fr *Frame, st *State, a []*Val, _ []types.Type, pos token.Pos) *Val {
			x, y := e.readU256(fr, st, a[0], pos), e.readU256(fr, st, a[1], pos)
			if op == "=" {
				return &Val{T: e.C.Eq(x, y)}
			}
			return &Val{T: e.C.Cmp(op, x, y)}
		})
	}
	cmp("Lt", "bvult")
	cmp("Gt", "bvugt")
	cmp("Eq", "=")
	reg(u+"LtUint64", func(e *Enc, fr *Frame, st *State, a []*Val, _ []types.Type, pos token.Pos) *Val {
		return &Val{T: e.C.Cmp("bvult", e.readU256(fr, st, a[0], pos), e.C.ZExt(a[1].T, 256))}
	})
	reg(u+"GtUint64", func(e *Enc, fr *Frame, st *State, a []*Val, _ []types.Type, pos token.Pos) *Val {
		return &Val{T: e.C.Cmp("bvugt", e.readU256(fr, st, a[0], pos), e.C.ZExt(a[1].T, 256))}
	})
	reg(u+"IsZero", func(e *Enc, fr *Frame, st *State, a []*Val, _ []types.Type, pos token.Pos) *Val {
		return &Val{T: e.C.Eq(e.readU256(fr, st, a[0], pos), e.C.LitU(0, 256))}
	})
	reg(u+"Sign", func(e *Enc, fr *Frame, st *State, a []*Val, _ []types.Type, pos token.Pos) *Val {
		c := e.C
		x := e.readU256(fr, st, a[0], pos)
		return &Val{T: c.Ite(c.Eq(x, c.LitU(0, 256)), c.LitU(0, 64), c.Ite(c.Eq(c.Extract(255, 255, x), c.LitU(1, 1)), c.LitI(-1, 64), c.LitU(1, 64)))}
	})
	reg(u+"Uint64", func(e *Enc, fr *Frame, st *State, a []*Val, _ []types.Type, pos token.Pos) *Val {
		return &Val{T: e.C.Extract(63, 0, e.readU256(fr, st, a[0], pos))}
	})
	reg(u+"IsUint64", func(e *Enc, fr *Frame, st *State, a []*Val, _ []types.Type, pos token.Pos) *Val {
		return &Val{T: e.C.Eq(e.C.Extract(255, 64, e.readU256(fr, st, a[0], pos)), e.C.LitU(0, 192))}
	})
	reg(u+"Uint64WithOverflow", func(e *Enc, fr *Frame, st *State, a []*Val, _ []types.Type, pos token.Pos) *Val {
		x := e.readU256(fr, st, a[0], pos)
		return &Val{Tup: []*Val{{T: e.C.Extract(63, 0, x)}, {T: e.C.Ne(e.C.Extract(255, 64, x), e.C.LitU(0, 192))}}}
	})
	reg(u+"Bytes32", func(e *Enc, fr *Frame, st *State, a []*Val, _ []types.Type, pos token.Pos) *Val {
		return &Val{T: e.bswap(e.readU256(fr, st, a[0], pos))}
	})
	reg(u+"Bytes20", func(e *Enc, fr *Frame, st *State, a []*Val, _ []types.Type, pos token.Pos) *Val {
		x := e.readU256(fr, st, a[0], pos)
		return &Val{T: e.bswap(e.C.Extract(159, 0, x))}
	})
	reg(u+"Bytes", func(e *Enc, fr *Frame, st *State, a []*Val, _ []types.Type, pos token.Pos) *Val {
		// fresh 32-byte region holding Bytes32(); result = region[32-ByteLen:]
		c := e.C
		x := e.readU256(fr, st, a[0], pos)
		at := types.NewArray(types.Typ[types.Uint8], 32)
		obj := e.allocObj(st, at)
		e.store(st, plainLoc(e.mkPtr(obj, e.bv64(0)), at), e.bswap(x))
		bl := e.byteLen(x)
		e.work(st, e.bv64(32))
		return &Val{T: e.mkSlice(obj, c.BVOp("bvsub", e.bv64(32), bl), bl, bl)}
	})
	reg(u+"SetBytes", func(e *Enc, fr *Frame, st *State, a []*Val, _ []types.Type, pos token.Pos) *Val {
		// big-endian value of the (last 32) bytes of buf
		c := e.C
		buf := a[1].T
		arr := e.byteRegion(st, e.slObj(buf))
		ln := e.slLen(buf)
		var parts []*smt.Term // high .. low
		for i := 31; i >= 0; i-- {
			// byte i (0 = least significant) = buf[len-1-i] if i < len
			idx := c.BVOp("bvadd", e.slOff(buf), c.BVOp("bvsub", c.BVOp("bvsub", ln, e.bv64(1)), e.bv64(uint64(i))))
			parts = append(parts, c.Ite(c.Cmp("bvult", e.bv64(uint64(i)), ln), c.Select(arr, idx), c.LitU(0, 8)))
		}
		e.writeU256(fr, st, a[0], c.Concat(parts...), pos)
		return a[0]
	})
	reg(u+"SetBytes32", func(e *Enc, fr *Frame, st *State, a []*Val, _ []types.Type, pos token.Pos) *Val {
		c := e.C
		buf := a[1].T
		e.safety(fr, st, "uint256.SetBytes32-len", pos, c.Cmp("bvuge", e.slLen(buf), e.bv64(32)))
		e.writeU256(fr, st, a[0], e.beWord(st, buf, e.bv64(0), 32), pos)
		return a[0]
	})
	reg("uint256.MustFromBig", func(e *Enc, fr *Frame, st *State, a []*Val, _ []types.Type, pos token.Pos) *Val {
		c := e.C
		p := a[0].T
		e.safety(fr, st, "MustFromBig-nonnil", pos, c.Ne(e.ptrObj(p), e.bv64(0)))
		neg := e.bigField(st, p, "bigneg").T
		wide := e.bigField(st, p, "bigwide").T
		// uint256.MustFromBig panics on overflow; FromBig takes |b| mod 2^256 for negative b (no panic)
		e.safety(fr, st, "MustFromBig-overflow", pos, c.Not(wide))
		_ = neg
		return &Val{T: e.newU256(st, e.bigField(st, p, "bigabs").T)}
	})
	reg("uint256.FromBig", func(e *Enc, fr *Frame, st *State, a []*Val, _ []types.Type, pos token.Pos) *Val {
		c := e.C
		p := a[0].T
		e.safety(fr, st, "FromBig-nonnil", pos, c.Ne(e.ptrObj(p), e.bv64(0)))
		return &Val{Tup: []*Val{{T: e.newU256(st, e.bigField(st, p, "bigabs").T)}, {T: e.bigField(st, p, "bigwide").T}}}
	})
	reg(u+"ToBig", func(e *Enc, fr *Frame, st *State, a []*Val, _ []types.Type, pos token.Pos) *Val {
		x := e.readU256(fr, st, a[0], pos)
		return &Val{T: e.newBig(st, x, e.C.False(), e.C.False())}
	})
	// math/big
	bg := "(*math/big.Int)."
	reg(bg+"Sign", func(e *Enc, fr *Frame, st *State, a []*Val, _ []types.Type, pos token.Pos) *Val {
		c := e.C
		p := a[0].T
		e.safety(fr, st, "nil-deref", pos, c.Ne(e.ptrObj(p), e.bv64(0)))
		abs, neg, wide := e.bigField(st, p, "bigabs").T, e.bigField(st, p, "bigneg").T, e.bigField(st, p, "bigwide").T
		isz := c.And(c.Eq(abs, c.LitU(0, 256)), c.Not(wide))
		return &Val{T: c.Ite(isz, c.LitU(0, 64), c.Ite(neg, c.LitI(-1, 64), c.LitU(1, 64)))}
	})
	reg(bg+"Uint64", func(e *Enc, fr *Frame, st *State, a []*Val, _ []types.Type, pos token.Pos) *Val {
		c := e.C
		p := a[0].T
		e.safety(fr, st, "nil-deref", pos, c.Ne(e.ptrObj(p), e.bv64(0)))
		return &Val{T: c.Extract(63, 0, e.bigField(st, p, "bigabs").T)}
	})
	reg(bg+"Bytes", func(e *Enc, fr *Frame, st *State, a []*Val, _ []types.Type, pos token.Pos) *Val {
		c := e.C
		p := a[0].T
		e.safety(fr, st, "nil-deref", pos, c.Ne(e.ptrObj(p), e.bv64(0)))
		abs := e.bigField(st, p, "bigabs").T
		at := types.NewArray(types.Typ[types.Uint8], 32)
		obj := e.allocObj(st, at)
		e.store(st, plainLoc(e.mkPtr(obj, e.bv64(0)), at), e.bswap(abs))
		bl := e.byteLen(abs)
		wide := e.bigField(st, p, "bigwide").T
		// for values >= 2^256 the model gives an unconstrained fresh slice
		fr2 := c.Fresh("bigbytes", smt.BV(SliceW))
		e.assume(st, e.wellFormed(fr2, types.NewSlice(types.Typ[types.Uint8]), st))
		return &Val{T: c.Ite(wide, fr2, e.mkSlice(obj, c.BVOp("bvsub", e.bv64(32), bl), bl, bl))}
	})
	reg("math/big.NewInt", func(e *Enc, fr *Frame, st *State, a []*Val, _ []types.Type, pos token.Pos) *Val {
		c := e.C
		x := a[0].T
		neg := c.Cmp("bvslt", x, c.LitU(0, 64))
		abs := c.Ite(neg, c.BVNeg(x), x)
		return &Val{T: e.newBig(st, c.ZExt(abs, 256), neg, c.False())}
	})
	// errors / bytes / common
	reg("errors.New", func(e *Enc, fr *Frame, st *State, a []*Val, _ []types.Type, pos token.Pos) *Val {
		c := e.C
		obj := c.BVOp("bvadd", st.Alloc, e.bv64(1))
		st.Alloc = obj
		v := c.Concat(e.bv64(errorStringTypeID), e.mkPtr(obj, e.bv64(0)))
		e.assume(st, c.Eq(c.App("error.Error", smt.BV(StrW), v), a[0].T))
		return &Val{T: v}
	})
	reg("bytes.Equal", func(e *Enc, fr *Frame, st *State, a []*Val, _ []types.Type, pos token.Pos) *Val {
		// bytes.Equal compares the lengths first: content is only read when they are equal
		e.work(st, e.C.Ite(e.C.Eq(e.slLen(a[0].T), e.slLen(a[1].T)), e.slLen(a[0].T), e.bv64(0)))
		return &Val{T: e.bytesEqual(st, a[0].T, a[1].T)}
	})
	reg("common.CopyBytes", func(e *Enc, fr *Frame, st *State, a []*Val, _ []types.Type, pos token.Pos) *Val {
		return &Val{T: e.copyBytes(st, a[0].T)}
	})
	reg("common.BytesToAddress", func(e *Enc, fr *Frame, st *State, a []*Val, _ []types.Type, pos token.Pos) *Val {
		// last 20 bytes, left padded; Address value has element 0 in the low bits
		return &Val{T: e.fixedFromBytes(st, a[0].T, 20)}
	})
	reg("common.BytesToHash", func(e *Enc, fr *Frame, st *State, a []*Val, _ []types.Type, pos token.Pos) *Val {
		return &Val{T: e.fixedFromBytes(st, a[0].T, 32)}
	})
	reg("(*common.Hash).SetBytes", func(e *Enc, fr *Frame, st *State, a []*Val, at []types.Type, pos token.Pos) *Val {
		loc := e.locOf(a[0], at[0])
		e.checkNonNil(fr, st, loc, pos, "nil-deref")
		e.store(st, loc, e.fixedFromBytes(st, a[1].T, 32))
		return &Val{}
	})
	reg("(common.Hash).Bytes", func(e *Enc, fr *Frame, st *State, a []*Val, _ []types.Type, pos token.Pos) *Val {
		return &Val{T: e.bytesOfFixed(st, a[0].T, 32)}
	})
	reg("(common.Address).Bytes", func(e *Enc, fr *Frame, st *State, a []*Val, _ []types.Type, pos token.Pos) *Val {
		return &Val{T: e.bytesOfFixed(st, a[0].T, 20)}
	})
	reg("(common.Address).Hash", func(e *Enc, fr *Frame, st *State, a []*Val, _ []types.Type, pos token.Pos) *Val {
		// left-pad to 32 bytes: hash[12+i] = addr[i]
		c := e.C
		return &Val{T: c.Concat(a[0].T, c.LitU(0, 96))}
	})
	// keccak sponge (crypto.KeccakState): the digest is an uninterpreted function of what was written; only the
	// argument of Write is visible to contracts (assertcall); Read overwrites the destination bytes with unknown content.
	ks := "iface:github.com/ethereum/go-ethereum/crypto.KeccakState."
	reg("github.com/ethereum/go-ethereum/crypto.NewKeccakState", func(e *Enc, fr *Frame, st *State, a []*Val, _ []types.Type, pos token.Pos) *Val {
		c := e.C
		obj := c.BVOp("bvadd", st.Alloc, e.bv64(1))
		st.Alloc = obj
		return &Val{T: c.Concat(e.bv64(keccakStateTypeID), e.mkPtr(obj, e.bv64(0)))}
	})
	reg(ks+"Reset", func(e *Enc, fr *Frame, st *State, a []*Val, _ []types.Type, pos token.Pos) *Val { return &Val{} })
	reg(ks+"Write", func(e *Enc, fr *Frame, st *State, a []*Val, _ []types.Type, pos token.Pos) *Val {
		e.work(st, e.slLen(a[1].T))
		return &Val{Tup: []*Val{{T: e.slLen(a[1].T)}, {T: e.C.LitU(0, IfaceW)}}}
	})
	reg(ks+"Read", func(e *Enc, fr *Frame, st *State, a []*Val, _ []types.Type, pos token.Pos) *Val {
		c := e.C
		buf := a[1].T
		hn := cellHeap(types.Typ[types.Uint8])
		hs := heapSort(smt.BV(8))
		h := e.heap(st, hn, hs)
		old := c.Select(h, e.slObj(buf))
		nr := c.Fresh("keccak.read", hs.Elem)
		i := c.BoundVar("i", smt.BV(64))
		inr := c.And(c.Cmp("bvuge", i, e.slOff(buf)), c.Cmp("bvult", c.BVOp("bvsub", i, e.slOff(buf)), e.slLen(buf)))
		e.assume(st, c.Forall([]*smt.Term{i}, c.Implies(c.Not(inr), c.Eq(c.Select(nr, i), c.Select(old, i)))))
		e.setHeap(st, hn, c.Store(h, e.slObj(buf), nr))
		e.work(st, e.slLen(buf))
		return &Val{Tup: []*Val{{T: e.slLen(buf)}, {T: c.LitU(0, IfaceW)}}}
	})
	// sort.Strings: the window of the slice is replaced by a sorted permutation of itself. The permutation is a
	// bijection of the window's positions given by two fresh uninterpreted functions (perm, its inverse); "sorted"
	// is stated with the uninterpreted total preorder str_le on strings (antisymmetric: the byte order of Go strings
	// is a total order, so two strings that are <= each other are equal). Everything outside the window is unchanged.
	reg("sort.Strings", func(e *Enc, fr *Frame, st *State, a []*Val, at []types.Type, pos token.Pos) *Val {
		c := e.C
		sl := a[0].T
		e.sortSeq++
		perm := fmt.Sprintf("sortperm!%d", e.sortSeq)
		inv := fmt.Sprintf("sortinv!%d", e.sortSeq)
		ln, off := e.slLen(sl), e.slOff(sl)
		for hn, hs := range e.heapsOfType(types.Typ[types.String]) {
			h := e.heap(st, hn, hs)
			old := c.Select(h, e.slObj(sl))
			nr := c.Fresh("sorted:"+hn, hs.Elem)
			i := c.BoundVar("i", smt.BV(64))
			j := c.BoundVar("j", smt.BV(64))
			inr := c.And(c.Cmp("bvuge", i, off), c.Cmp("bvult", c.BVOp("bvsub", i, off), ln))
			e.assume(st, c.Forall([]*smt.Term{i}, c.Implies(c.Not(inr), c.Eq(c.Select(nr, i), c.Select(old, i)))))
			// positions are window-relative: 0 <= i < len
			in := func(x *smt.Term) *smt.Term { return c.Cmp("bvult", x, ln) }
			at := func(arr, x *smt.Term) *smt.Term { return c.Select(arr, c.BVOp("bvadd", off, x)) }
			pi := c.App(perm, smt.BV(64), i)
			e.assume(st, c.Forall([]*smt.Term{i}, c.Implies(in(i), c.And(in(pi), c.Eq(c.App(inv, smt.BV(64), pi), i), c.Eq(at(nr, i), at(old, pi))))))
			ii := c.App(inv, smt.BV(64), i)
			e.assume(st, c.Forall([]*smt.Term{i}, c.Implies(in(i), c.And(in(ii), c.Eq(c.App(perm, smt.BV(64), ii), i)))))
			e.assume(st, c.Forall([]*smt.Term{i, j}, c.Implies(c.And(in(j), c.Cmp("bvule", i, j)), c.App("str_le", smt.Bool, at(nr, i), at(nr, j)))))
			// consequence of "nr is a permutation of old" stated outright (the solvers do not find the two-step
			// instantiation through perm / inv): pairwise distinct before implies pairwise distinct after
			distinct := func(arr *smt.Term) *smt.Term {
				return c.Forall([]*smt.Term{i, j}, c.Implies(c.And(c.Cmp("bvult", i, j), in(j)), c.Ne(at(arr, i), at(arr, j))))
			}
			e.assume(st, c.Implies(distinct(old), distinct(nr)))
			e.setHeap(st, hn, c.Store(h, e.slObj(sl), nr))
		}
		x := c.BoundVar("x", smt.BV(StrW))
		y := c.BoundVar("y", smt.BV(StrW))
		e.addAxiomOnce("str_le-antisymmetric", c.Forall([]*smt.Term{x, y}, c.Implies(c.And(c.App("str_le", smt.Bool, x, y), c.App("str_le", smt.Bool, y, x)), c.Eq(x, y))))
		e.work(st, ln)
		return &Val{}
	})
	// atomic.Bool
	reg("(*sync/atomic.Bool).Load", func(e *Enc, fr *Frame, st *State, a []*Val, at []types.Type, pos token.Pos) *Val {
		return &Val{T: e.atomicBool(st, a[0], at[0], nil)}
	})
	reg("(*sync/atomic.Bool).Store", func(e *Enc, fr *Frame, st *State, a []*Val, at []types.Type, pos token.Pos) *Val {
		e.atomicBool(st, a[0], at[0], a[1].T)
		return &Val{}
	})
}

const errorStringTypeID = 0xE5
const keccakStateTypeID = 0xE6

// ---------- uint256 helpers ----------

func (e *Enc) u256T() types.Type { return e.P.u256Type() }

func (e *Enc) u256Loc(v *Val) *Loc {
	if v.Loc != nil {
		return v.Loc
	}
	return plainLoc(v.T, e.u256T())
}

func (e *Enc) readU256(fr *Frame, st *State, v *Val, pos token.Pos) *smt.Term {
	loc := e.u256Loc(v)
	e.checkNonNil(fr, st, loc, pos, "nil-deref")
	return e.load(st, loc)
}

func (e *Enc) writeU256(fr *Frame, st *State, v *Val, x *smt.Term, pos token.Pos) {
	loc := e.u256Loc(v)
	e.checkNonNil(fr, st, loc, pos, "nil-deref")
	if o := e.ptrObj(loc.Base); o.IsLit() && o.Val.Bit(63) == 1 {
		e.oblige(fr, st, "frame", "shared-constant-write", "write to a package-level uint256 constant at "+e.posOf(pos), pos, e.C.False(), append([]string{"C16", "C17"}, e.Props...))
	}
	e.store(st, loc, x)
}

func (e *Enc) newU256(st *State, x *smt.Term) *smt.Term {
	obj := e.allocObj(st, e.u256T())
	p := e.mkPtr(obj, e.bv64(0))
	e.store(st, plainLoc(p, e.u256T()), x)
	return p
}

// bswap reverses the byte order of a bit-vector (big-endian value <-> [N]byte with element 0 in the low bits).
func (e *Enc) bswap(x *smt.Term) *smt.Term {
	n := x.Sort.W / 8
	parts := make([]*smt.Term, 0, n)
	for i := 0; i < n; i++ {
		parts = append(parts, e.C.Extract(8*i+7, 8*i, x))
	}
	return e.C.Concat(parts...) // parts[0] (low byte) becomes the highest
}

// beWord reads n bytes big-endian from slice sl starting at element index i.
func (e *Enc) beWord(st *State, sl, i *smt.Term, n int) *smt.Term {
	c := e.C
	arr := e.byteRegion(st, e.slObj(sl))
	base := c.BVOp("bvadd", e.slOff(sl), i)
	parts := make([]*smt.Term, 0, n)
	for k := 0; k < n; k++ {
		parts = append(parts, c.Select(arr, c.BVOp("bvadd", base, e.bv64(uint64(k)))))
	}
	return c.Concat(parts...)
}

// byteLen: number of significant bytes of a 256-bit value (0 for 0).
func (e *Enc) byteLen(x *smt.Term) *smt.Term {
	c := e.C
	res := e.bv64(0)
	for k := 1; k <= 32; k++ {
		// if byte k-1 (from LSB) is the highest non-zero: all bytes >= k zero is implied by construction order
		hi := c.Extract(255, 8*(k-1), x)
		res = c.Ite(c.Ne(hi, c.LitU(0, hi.Sort.W)), e.bv64(uint64(k)), res)
	}
	return res
}

// ---------- math/big ghost fields ----------

func (e *Enc) bigField(st *State, p *smt.Term, name string) *SVal {
	c := e.C
	var s *smt.Sort
	var ty types.Type
	switch name {
	case "bigabs":
		s = smt.BV(256)
		ty = e.u256T()
	default:
		s = smt.Bool
		ty = types.Typ[types.Bool]
	}
	h := e.heap(st, "ghost:"+name, heapSort(s))
	return &SVal{T: c.Select(c.Select(h, e.ptrObj(p)), e.ptrIdx(p)), Typ: ty}
}

func (e *Enc) setBigField(st *State, p *smt.Term, name string, v *smt.Term) {
	e.storeRaw(st, "ghost:"+name, v.Sort, e.ptrObj(p), e.ptrIdx(p), v)
}

func (e *Enc) newBig(st *State, abs, neg, wide *smt.Term) *smt.Term {
	obj := e.C.BVOp("bvadd", st.Alloc, e.bv64(1))
	st.Alloc = obj
	p := e.mkPtr(obj, e.bv64(0))
	e.setBigField(st, p, "bigabs", abs)
	e.setBigField(st, p, "bigneg", neg)
	e.setBigField(st, p, "bigwide", wide)
	return p
}

func (e *Enc) initOpaque(st *State, t types.Type, p *smt.Term) {
	if isNamed(t, "math/big", "Int") {
		e.setBigField(st, p, "bigabs", e.C.LitU(0, 256))
		e.setBigField(st, p, "bigneg", e.C.False())
		e.setBigField(st, p, "bigwide", e.C.False())
	}
}

// ---------- bytes helpers ----------

func (e *Enc) bytesEqual(st *State, a, b *smt.Term) *smt.Term {
	c := e.C
	ra, rb := e.byteRegion(st, e.slObj(a)), e.byteRegion(st, e.slObj(b))
	uf := c.App("bytes.Equal", smt.Bool, ra, e.slOff(a), e.slLen(a), rb, e.slOff(b), e.slLen(b))
	same := c.And(c.Eq(ra, rb), c.Eq(e.slOff(a), e.slOff(b)), c.Eq(e.slLen(a), e.slLen(b)))
	bothEmpty := c.And(c.Eq(e.slLen(a), e.bv64(0)), c.Eq(e.slLen(b), e.bv64(0)))
	return c.And(c.Eq(e.slLen(a), e.slLen(b)), c.Or(same, bothEmpty, uf))
}

func (e *Enc) copyBytes(st *State, b *smt.Term) *smt.Term {
	c := e.C
	u8 := types.Typ[types.Uint8]
	pre := st.clone()
	obj := e.allocObj(st, u8)
	ln := e.slLen(b)
	e.copyElems(st, pre, u8, obj, e.bv64(0), e.slObj(b), e.slOff(b), ln)
	isNil := c.Eq(e.slObj(b), e.bv64(0))
	return c.Ite(isNil, c.LitU(0, SliceW), e.mkSlice(obj, e.bv64(0), ln, ln))
}

// fixedFromBytes: common.BytesToAddress / BytesToHash / SetBytes: the last n bytes of b, left-padded with zeros.
// Result encoding: [n]byte with element 0 in the low bits.
func (e *Enc) fixedFromBytes(st *State, b *smt.Term, n int) *smt.Term {
	c := e.C
	arr := e.byteRegion(st, e.slObj(b))
	ln := e.slLen(b)
	// element j (0..n-1) = b[len-n+j] if len-n+j >= 0 i.e. j >= n-len
	parts := make([]*smt.Term, 0, n)
	for j := n - 1; j >= 0; j-- {
		// distance from the end: d = n-1-j ; source index = len-1-d, valid iff d < len
		d := uint64(n - 1 - j)
		idx := c.BVOp("bvadd", e.slOff(b), c.BVOp("bvsub", c.BVOp("bvsub", ln, e.bv64(1)), e.bv64(d)))
		parts = append(parts, c.Ite(c.Cmp("bvult", e.bv64(d), ln), c.Select(arr, idx), c.LitU(0, 8)))
	}
	return c.Concat(parts...)
}

func (e *Enc) bytesOfFixed(st *State, v *smt.Term, n int) *smt.Term {
	at := types.NewArray(types.Typ[types.Uint8], int64(n))
	obj := e.allocObj(st, at)
	e.store(st, plainLoc(e.mkPtr(obj, e.bv64(0)), at), v)
	return e.mkSlice(obj, e.bv64(0), e.bv64(uint64(n)), e.bv64(uint64(n)))
}

func (e *Enc) atomicBool(st *State, v *Val, t types.Type, set *smt.Term) *smt.Term {
	c := e.C
	var base *smt.Term
	var name string
	if v.Loc != nil {
		base = v.Loc.Base
		name = "ghost:atomic:" + typeStr(v.Loc.Root) + "." + v.Loc.Path
	} else {
		base = v.T
		name = "ghost:atomic:cell"
	}
	h := e.heap(st, name, heapSort(smt.Bool))
	if set != nil {
		e.setHeap(st, name, c.Store(h, e.ptrObj(base), c.Store(c.Select(h, e.ptrObj(base)), e.ptrIdx(base), set)))
		return nil
	}
	// another goroutine may Store at any time: a Load returns an arbitrary value unless the
	// variable is declared quiescent; keep it as a heap read plus havoc afterwards.
	r := c.Select(c.Select(h, e.ptrObj(base)), e.ptrIdx(base))
	return r
}

// keccakOf: uninterpreted hash of the current content of a byte slice.
func (e *Enc) keccakOf(st *State, sl *smt.Term) *smt.Term {
	c := e.C
	arr := e.byteRegion(st, e.slObj(sl))
	ln := e.slLen(sl)
	// for inputs of exactly 32 bytes the hash is a function of the 256-bit word; otherwise of (array, off, len)
	w := e.beWord(st, sl, e.bv64(0), 32)
	return c.Ite(c.Eq(ln, e.bv64(32)), c.App("keccak256.word", smt.BV(256), w),
		c.App("keccak256.bytes", smt.BV(256), arr, e.slOff(sl), ln))
}

// ---------- globals declared in the contract file ----------

func (e *Enc) globalConstVal(q string, t types.Type) *smt.Term {
	g, ok := e.P.Contr.Globals[q]
	if !ok {
		return nil
	}
	c := e.C
	obj := c.LitU(uint64(1)<<63+uint64(g.Idx), 64)
	p := e.mkPtr(obj, e.bv64(0))
	switch g.Kind {
	case "u256":
		n, ok := new(big.Int).SetString(strings.TrimPrefix(g.Val, "0x"), map[bool]int{true: 16, false: 10}[strings.HasPrefix(g.Val, "0x")])
		if !ok {
			unsupported("global %s: bad value %q", q, g.Val)
		}
		// the cell content is fixed in the initial heap; writes through these pointers are frame violations
		h0name := cellHeap(e.u256T())
		e.heapSortOf(h0name, heapSort(smt.BV(256)))
		h0 := e.initHeap(h0name)
		e.addAxiomOnce("global:"+q, c.Eq(c.Select(c.Select(h0, obj), e.bv64(0)), c.Lit(n, 256)))
		e.globalsUsed[q] = true
		return p
	case "sentinel":
		v := c.Concat(e.bv64(errorStringTypeID), p)
		if g.Val != "" {
			e.addAxiomOnce("global:"+q, c.Eq(c.App("error.Error", smt.BV(StrW), v), e.stringLit(strings.ReplaceAll(g.Val, "_", " "))))
		}
		return v
	}
	unsupported("global %s: unknown kind %s", q, g.Kind)
	return nil
}

// globalU256Value: literal value of the declared u256 global with the given index.
func (e *Enc) globalU256Value(idx uint64) *smt.Term {
	for _, g := range e.P.Contr.Globals {
		if uint64(g.Idx) == idx && g.Kind == "u256" {
			n, ok := new(big.Int).SetString(strings.TrimPrefix(g.Val, "0x"), map[bool]int{true: 16, false: 10}[strings.HasPrefix(g.Val, "0x")])
			if ok {
				return e.C.Lit(n, 256)
			}
		}
	}
	return nil
}

// heapSortByName reconstructs the sort of a heap from its name (for modifies clauses naming heaps not yet used).
func (p *Program) heapSortByName(h string) *smt.Sort {
	switch {
	case strings.HasPrefix(h, "fld:"):
		rest := strings.TrimPrefix(h, "fld:")
		parts := strings.Split(rest, ".")
		for i := len(parts) - 1; i >= 1; i-- {
			t := p.resolveType(strings.Join(parts[:i], "."), nil)
			if t != nil && isStruct(t) {
				path := strings.Join(parts[i:], ".")
				for _, l := range leavesOf(t) {
					if l.Path == path {
						return heapSort(sortOf(l.Type))
					}
				}
			}
		}
	case strings.HasPrefix(h, "cell:"):
		t := p.resolveType(strings.TrimPrefix(h, "cell:"), nil)
		if t == nil && strings.HasPrefix(h, "cell:[]") {
			if et := p.resolveType(strings.TrimPrefix(h, "cell:[]"), nil); et != nil {
				t = types.NewSlice(et)
			}
		}
		if t != nil {
			return heapSort(sortOf(t))
		}
	case strings.HasPrefix(h, "map:"), strings.HasPrefix(h, "mapdom:"):
		isDom := strings.HasPrefix(h, "mapdom:")
		mt, ok := p.mapTypes[strings.TrimPrefix(strings.TrimPrefix(h, "mapdom:"), "map:")]
		if !ok {
			return nil
		}
		ks := sortOf(mt.Key())
		if isDom {
			return smt.Array(smt.BV(64), smt.Array(ks, smt.Bool))
		}
		return smt.Array(smt.BV(64), smt.Array(ks, sortOf(mt.Elem())))
	case strings.HasPrefix(h, "ghost:"):
		n := strings.TrimPrefix(h, "ghost:")
		if g, ok := p.Ghosts[n]; ok {
			return g.Sort
		}
		if strings.HasPrefix(n, "atomic:") {
			return heapSort(smt.Bool)
		}
		switch n {
		case "statever", "nextsnap":
			return smt.BV(64)
		case "work":
			return smt.BV(128)
		case "snapstate":
			return smt.Array(smt.BV(64), smt.BV(64))
		case "bigabs":
			return heapSort(smt.BV(256))
		case "bigneg", "bigwide":
			return heapSort(smt.Bool)
		}
	}
	return nil
}
