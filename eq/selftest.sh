#!/usr/bin/env bash
# Self-test of E2 (goeq): mutate a scratch copy of /repo one edit at a time and
# check that exactly the expected obligation stops discharging (or, for the
# harmless edits, that everything stays discharged).
#   usage: eq/selftest.sh [REPO=/repo]
# Prints PASS/FAIL per case; exit 0 iff all pass.  Nothing is written to REPO.
set -u
REPO="${1:-/repo}"
HERE="$(cd "$(dirname "$0")" && pwd)"
GOEQ="${GOEQ:-$HERE/../bin/goeq}"
DELTAS="${DELTAS:-$HERE/deltas.json}"
if [ ! -x "$GOEQ" ]; then
  echo "building goeq"
  (cd "$HERE/.." && GOFLAGS=-mod=mod GOPROXY=off GOSUMDB=off GOTOOLCHAIN=local go build -o bin/goeq ./cmd/goeq) || exit 2
fi
SCR="$(mktemp -d /tmp/goeq_selftest.XXXXXX)"
trap 'rm -rf "$SCR"' EXIT
rc=0

fresh() { # fresh scratch copy
  rm -rf "$SCR/repo"; mkdir -p "$SCR/repo"
  cp -r "$REPO/vm" "$REPO/core" "$REPO/tracers" "$REPO/go.mod" "$SCR/repo/"
}

# run NAME EXPECTED_FAILED_IDS(space separated, "" = none) [EXPECT_SUBSTRING_IN_JSON]
run() {
  local name="$1" expect="$2" needle="${3:-}"
  "$GOEQ" check --repo "$SCR/repo" --deltas "$DELTAS" --out "$SCR/out.json" 2>"$SCR/err.txt"
  local code=$?
  local got
  got="$(grep '^FAILED ' "$SCR/err.txt" | sed 's/^FAILED \(EQ\/[^ ]*\):.*/\1/' | sort | tr '\n' ' ' | sed 's/ $//')"
  local want
  want="$(echo "$expect" | tr ' ' '\n' | sort | tr '\n' ' ' | sed 's/^ //; s/ $//')"
  local ok=1
  [ "$got" = "$want" ] || ok=0
  if [ -z "$want" ]; then [ $code -eq 0 ] || ok=0; else [ $code -eq 1 ] || ok=0; fi
  if [ -n "$needle" ] && ! grep -qF -- "$needle" "$SCR/out.json"; then ok=0; fi
  if [ $ok -eq 1 ]; then
    echo "PASS  $name   (failed: ${got:-none}; exit $code${needle:+; report contains '$needle'})"
  else
    echo "FAIL  $name   expected failed=[${want}] got=[${got}] exit=$code${needle:+ needle='$needle'}"
    sed 's/^/      /' "$SCR/err.txt" | head -20
    rc=1
  fi
}

edit() { # edit FILE PERL_EXPR ; fails loudly if the file did not change
  local f="$SCR/repo/$1"
  cp "$f" "$f.orig"
  perl -0pi -e "$2" "$f"
  if cmp -s "$f" "$f.orig"; then echo "FAIL  edit of $1 did not apply: $2"; rc=1; fi
  rm -f "$f.orig"
}

fresh
run "0 unchanged tree: everything discharged" ""

fresh
edit vm/gas_table.go 's/square \/ params\.QuadCoeffDiv/square \/ (params.QuadCoeffDiv - 1)/'
run "1 memoryGasCost: QuadCoeffDiv -> (QuadCoeffDiv-1)" "EQ/vm.memoryGasCost"

fresh
edit vm/instructions.go 's/y\.Sub\(&x, y\)/y.Sub(y, &x)/'
run "2 opSub: operands swapped" "EQ/vm.opSub"

fresh
# first `gas = 0` of the file is the one in (*EVM).Call
edit vm/evm.go 's/(if err != ErrExecutionReverted \{\n)\t+gas = 0\n/$1/'
run "3 Call: gas = 0 deleted" "EQ/vm.(*EVM).Call"

fresh
edit vm/evm.go 's/(\t+evm\.Config\.Tracer\.CaptureEnter\(CALL, caller\.Address\(\), addr, input, gas, value\)\n)(\t+defer func\(startGas uint64\) \{\n\t+evm\.Config\.Tracer\.CaptureExit\(ret, startGas-gas, err\)\n\t+\}\(gas\)\n)/$2$1/'
run "4 Call: CaptureEnter(CALL,..) moved after the deferred CaptureExit" "EQ/vm.(*EVM).Call"

fresh
edit vm/instructions.go 's/(func opAdd\(.*\n)\tx, y := scope\.Stack\.pop\(\), scope\.Stack\.peek\(\)\n\ty\.Add\(&x, y\)/$1\tlhs, acc := scope.Stack.pop(), scope.Stack.peek()\n\tacc.Add(&lhs, acc)/'
run "5 opAdd: locals renamed consistently (N5 alpha-renaming)" "" "N5 alpha-renaming"

fresh
edit vm/instructions.go 's/(func opMul\(.*\n)\tx, y := scope\.Stack\.pop\(\), scope\.Stack\.peek\(\)\n\ty\.Mul\(&x, y\)/$1\t\/\/ a new comment\n\n\tx, y := scope.Stack.pop(),\n\t\tscope.Stack.peek() \/* inline *\/\n\n\n\ty.Mul( &x,\n\t\ty )/'
edit vm/evm.go 's/func \(evm \*EVM\) Call\(/\/\/ reformatted\nfunc (evm *EVM) Call(\n\t/'
run "6 comment + reformat (opMul, Call signature)" ""

# extra cases beyond the required six
fresh
edit vm/instructions.go 's/(func opAdd\(.*\n)\tx, y := scope\.Stack\.pop\(\), scope\.Stack\.peek\(\)\n\ty\.Add\(&x, y\)/$1\tx, y := scope.Stack.pop(), scope.Stack.peek()\n\ty.Add(y, y)/'
run "7 opAdd: inconsistent renaming (x replaced by y in one place) must fail" "EQ/vm.opAdd"

fresh
edit vm/evm.go 's/\ttracer\.SaveCall\(caller\.Address\(\), &addr, input, uint256\.MustFromBig\(value\), uint256\.NewInt\(gas\)\)\n//'
run "8 Call: declared ghost statement SaveCall removed -> stale delta rule" "EQ/vm.(*EVM).Call" "stale delta rule"

fresh
edit tracers/native/call.go 's/t\.callstack\[0\]\.Gas = t\.gasLimit/t.callstack[0].Gas = gas/'
run "9 callTracer.CaptureStart (pinned by hash) edited" "EQ/tracers/native.(*callTracer).CaptureStart" "pinned declaration changed"

fresh
edit vm/evm.go 's/(\tif evm\.IsExecuteJP \{\n\t+preCallResult)/\tgas -= 1\n$1/'
run "10 Call: non-ghost statement added next to a ghost block" "EQ/vm.(*EVM).Call"

fresh
edit vm/opcodes.go 's/\tMCOPY    OpCode = 0x5e/\tMCOPY    OpCode = 0x5e\n\tEVIL     OpCode = 0x5f/'
run "11 new opcode constant only: repo_only, no EQ obligation fails" "" "vm.EVIL"

fresh
edit vm/jump_table.go 's/(\t\tRSVJNAL: \{)/\t\tEVIL: {execute: opAdd},\n$1/'
run "12 undeclared table entry added to newFrontierInstructionSet" "EQ/vm.newFrontierInstructionSet"

fresh
edit vm/contracts.go 's/func \(c \*dataCopy\) Run\(ctx context\.Context, in \[\]byte\)/func (c *dataCopy) Run(ctx context.Context, in []byte, extra int)/'
run "13 extra non-ctx parameter is not ignored" "EQ/vm.(*dataCopy).Run"

exit $rc
