#!/usr/bin/env bash
# Applies each seeded change to /repo in turn, runs the check of the property it breaks (plus any extra ids given
# as SEED_EXTRA="C01 C02"), records whether the check exits 1 with a VIOLATION line, and restores /repo.
#   usage: tools/run_seeds.sh [seed-dir-name ...]      (default: all of /verif/seeded/*)
set -u
cd /verif
export GOFLAGS=-mod=mod GOPROXY=off GOSUMDB=off GOTOOLCHAIN=local
out=/verif/seeded/RESULTS.tsv
if [ $# -gt 0 ]; then seeds="$@"; else seeds=$(ls /verif/seeded | grep -v RESULTS); : > $out; fi
git -C /repo diff --quiet || { echo "/repo has uncommitted changes"; exit 2; }
for s in $seeds; do
  d=/verif/seeded/$s
  [ -f $d/patch.diff ] || continue
  prop=${s%%-*}
  if ! git -C /repo apply --check $d/patch.diff 2>/dev/null; then echo -e "$s\t$prop\tPATCH-CONFLICT\t-" | tee -a $out; continue; fi
  git -C /repo apply $d/patch.diff
  for p in $prop ${SEED_EXTRA:-}; do
    log=/tmp/seedrun.$s.$p.log
    timeout 1800 bin/verif check $p > $log 2>&1; rc=$?
    nv=$(grep -c '^VIOLATION' $log)
    first=$(grep -v '^ok' $log | grep -m1 -E '^(failed|unknown|error)' | cut -c1-160)
    echo -e "$s\t$p\texit=$rc violations=$nv\t$first" | tee -a $out
  done
  git -C /repo checkout -- . 
done
