#!/usr/bin/env bash
# Must-fail corpus: applies the reverse of each fix: commit to /repo, runs the checks named in its meta.json and
# expects exit 1 (the defect is reported again); restores /repo. A canary that stays green means a broken engine.
set -u
cd /verif
git -C /repo diff --quiet || { echo "/repo has uncommitted changes"; exit 2; }
out=/verif/selftest/RESULTS.tsv; rc_all=0
# usage: tools/run_selftest.sh [R-<hash> ...]   (default: all canaries, RESULTS.tsv rewritten)
if [ $# -gt 0 ]; then dirs=""; for a in "$@"; do dirs="$dirs /verif/selftest/$a"; done; else dirs=$(ls -d /verif/selftest/R-*); : > $out; fi
for d in $dirs; do
  [ -f $d/patch.diff ] || continue
  props=$(python3 -c "import json;print(' '.join(json.load(open('$d/meta.json'))['must_fail_properties']))")
  if ! git -C /repo apply --check $d/patch.diff 2>/dev/null; then echo -e "$(basename $d)\t-\tPATCH-CONFLICT" | tee -a $out; continue; fi
  git -C /repo apply $d/patch.diff
  for p in $props; do
    bin/verif check $p > /tmp/selftest.$(basename $d).$p.log 2>&1; rc=$?
    nv=$(grep -c '^VIOLATION' /tmp/selftest.$(basename $d).$p.log); nc=$(grep '^VIOLATION' /tmp/selftest.$(basename $d).$p.log | grep -vc 'no-failing-input-found')
    res=PASS; [ $rc -eq 1 ] || { res=FAIL-canary-not-detected; rc_all=1; }
    echo -e "$(basename $d)\t$p\t$res exit=$rc violations=$nv replay-confirmed=$nc" | tee -a $out
  done
  git -C /repo checkout -- .
done
exit $rc_all
