#!/usr/bin/env bash
# Confirms a candidate seeded change delivered by a sub-agent in a scratch worktree, independently of the agent:
#   usage: tools/confirm_seed.sh <worktree> <pkgdir-of-demo e.g. vm> <baseline-pass-set>
# expects <worktree>/patch.diff (applied) and <worktree>/<pkgdir>/zz_seed_demo_test.go
# prints: demo_with_change=<rc> demo_without_change=<rc> pass_with_change=<n> pass_diff_lines=<n>
set -u
export GOFLAGS=-mod=mod GOPROXY=off GOSUMDB=off GOTOOLCHAIN=local
w=$1; pkg=$2; base=$3
cd $w || exit 2
git apply --check -R patch.diff || { echo "patch.diff is not what is applied"; exit 2; }
go build ./... || { echo "does not build"; exit 2; }
go test -vet=off -count=1 -timeout 300s -run 'TestSeed' ./$pkg/ > /tmp/confirm.with.log 2>&1; a=$?
git apply -R patch.diff
go test -vet=off -count=1 -timeout 300s -run 'TestSeed' ./$pkg/ > /tmp/confirm.without.log 2>&1; b=$?
git apply patch.diff
mv $pkg/zz_seed_demo_test.go /tmp/confirm.demo.go
go test -vet=off -count=1 -timeout 25m -json -p 4 ./... 2>/dev/null | jq -r 'select(.Action=="pass" and .Test!=null) | .Package+"::"+.Test' | sort -u > /tmp/confirm.pass.txt
mv /tmp/confirm.demo.go $pkg/zz_seed_demo_test.go
n=$(wc -l < /tmp/confirm.pass.txt); d=$(diff $base /tmp/confirm.pass.txt | wc -l)
echo "demo_with_change=$a demo_without_change=$b pass_with_change=$n pass_diff_lines=$d"
