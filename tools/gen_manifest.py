#!/usr/bin/env python3
"""Regenerates the checks / not_applicable sections of /verif/MANIFEST.json from the table below."""
import json, sys

HOST = "host callbacks (StateDB, CanTransfer/Transfer, Aspect provider/runtime) satisfy the assumed iface/fntype/extern contracts of vm/zz_verif_contracts_env.go; go/ssa lowering, the govc encoding of Go semantics and the SMT solvers are trusted; upstream-derived code is covered only by equivalence with go-ethereum v1.12.0"

P = {
 "C01": dict(claimed=True, cat="proof", tech="contract-based deductive verification: relational contract (function-by-function equivalence with the go-ethereum v1.12.0 source, reflexivity / ghost-erasure rule) plus unary SMT-discharged contracts on the erased Artela pieces",
   text="Every paired declaration of vm, vm/runtime and core carries the relational contract EQ(d) 'equivalent to the go-ethereum v1.12.0 declaration of the same name assuming all callee pairs are'. It is discharged by reflexivity after a fixed printed normalisation (ctx parameter erased, import paths mapped) or, for the declared Artela deltas (Call, create, NewEVM, NewEVMInterpreter, table constructors, opcode tables), by erasing exactly the statements declared ghost in eq/deltas.json and requiring reflexivity of the rest. A change to any upstream-derived function fails its named EQ obligation. All inputs, programs and forks are covered because the obligation is about the program text, not about runs.",
   note="The composition step (all EQ hold => partial equivalence of the two interpreters) is the regression-verification meta-theorem, not machine checked; termination is not addressed. That the erased Artela statements are ghost for standard programs is argued per delta in eq/deltas.json (and by the unary obligations on the tracer functions), under the hypothesis 'no Aspect bound => join point returns {gas, nil}' (aspect-core, external). " + HOST),
 "C02": dict(claimed=True, cat="proof", tech="contract-based deductive verification: relational contracts (EQ with go-ethereum v1.12.0) on the gas path",
   text="The EQ obligations restricted to, and separately counted for, the gas path: gas.go, gas_table.go, operations_acl.go, memory_table.go, common.go, jump_table.go, Contract.UseGas, the charging sequence of Run, RunPrecompiledContract, every RequiredGas, the frame functions and the call/create opcodes.",
   note="as C01; the reference gas schedule itself is Ethereum's (assumed adequate)."),
 "C03": dict(claimed=True, cat="proof", tech="contract-based deductive verification: annotation-free safety VCs (bounds, nil, division, type assertion, makeslice, library preconditions) generated from go/ssa for every Artela-specific function under explicit protocol/host preconditions, discharged by SMT",
   text="For each of the Artela-specific functions (all of vm/tracer.go, the eight journal opcodes and loadDataFromMem, loadParamBytes and the three Artela precompiles, Memory.Copy, memoryMcopy, opMcopy, opTload, opTstore, EVM.Call, EVM.precompile) govc generates one obligation per potentially panicking instruction and discharges it for all argument values, memory and storage contents (exact 64-bit / 256-bit machine arithmetic). Preconditions are only what the interpreter loop and an initialised host establish (stated as requires). A syntactic obligation shows no function calls recover(), so 'no panic' is the whole story.",
   note="Upstream-derived functions crash exactly where go-ethereum v1.12.0 does (C01) and the reference is assumed crash-free on its domain; out-of-memory is not modelled (allocations below 2^40 elements are assumed to succeed); panics inside go-ethereum's crypto code and host callbacks are outside. " + HOST),
 "C09": dict(claimed=True, cat="proof", tech="contract-based deductive verification: functional contracts on the two change-journal opcodes against Solidity layout spec functions (ghost event monitors, loop invariants), discharged by SMT",
   text="opValueChangeJournal: for all 2^256 words and all operand values, operands with offset<=31, size<=32, offset+size<=32 lead to exactly one SaveStateChange whose value is bytes [32-off-size, 32-off) of the word read from the executing contract's slot; all other operands are rejected with an error and no tracer call. opReferenceChangeJournal: the length/validity decode equals the Solidity rule for all words; in-place content is the first len bytes of the word; the bytes hashed are the 32-byte big-endian slot; iteration i reads slot base+i; ceil(len/32) reads; the journaled value has exactly len bytes; invalid encodings are rejected and record nothing.",
   note="keccak256 is uninterpreted (only its argument is checked); the content of out-of-place strings is proved word-by-word position (slot base+i, count, length), not as a quantified byte equality. " + HOST),
 "C12": dict(claimed=True, cat="proof", tech="contract-based deductive verification: frame/ensures clauses on the journal opcodes (SMT) plus ground evaluation of the 12 closed instruction tables",
   text="Ground evaluation reads the real tables: in all 12 fork tables bytes 0xe0-0xe7 map to the journal functions with constantGas 0, a makeGasJournal closure returning (800, nil), no memorySize and stack bounds equal to the operands popped. E1 clauses on the change-journal opcodes: exact number of pops, ret == nil, invalid operands give an error that is neither the stop token nor a revert, and the frame (stack contents below the operands, memory, state version unchanged).",
   note="the key-registration opcodes (0xe0-0xe5) are covered here by the table facts and the safety sweep of C03, not yet by frame clauses. " + HOST),
 "C14": dict(claimed=True, cat="proof", tech="contract-based deductive verification: safety VCs and contracts on loadParamBytes and the three Artela precompiles (SMT) plus ground evaluation of the precompile maps",
   text="loadParamBytes and the Run methods of the three Artela precompiles are verified panic-free for every payload (including ABI head words up to 2^256-1); contextWriter refuses to run without an execution context; EVM.precompile returns a non-nil contract whenever it reports one; ground evaluation shows 0x64-0x66 are registered in the Berlin map only, with the expected types and the fixed fee 5000.",
   note="the exact-decode clauses of loadParamBytes and the clone attribution in EVM.Call are being added; short payloads returning success without a host call are not yet judged. " + HOST),
 "C15": dict(claimed=True, cat="proof", tech="contract-based deductive verification: functional contracts on Memory.Copy (memmove spec), memoryMcopy, opMcopy (SMT); EQ with upstream for the EIP-1153 bodies; ground evaluation of the Cancun table",
   text="Memory.Copy satisfies the overlap-safe memmove specification for all (dst, src, len) under the protocol precondition; memoryMcopy returns max(dst,src)+len with the overflow flag for all 256-bit operands; opMcopy pops three operands and calls Copy once with them; enable1153/opTload/opTstore are EQ to go-ethereum; ground evaluation: Cancun = Shanghai + {0x5c TLOAD, 0x5d TSTORE, 0x5e MCOPY} with the specified constant gas and stack bounds, and these bytes are opUndefined in the other eleven tables.",
   note="gasMcopy = memoryCopierGas(2) is checked through the table entry's closure name only; transient-storage semantics (per address, per transaction, journaled) is go-ethereum's StateDB (shared dependency, assumed). " + HOST),
 "C16": dict(claimed=True, cat="proof", tech="contract-based deductive verification: whole-package frame obligations and an order-leak obligation per map iteration, generated from go/ssa",
   text="Obligations generated from the current source: (i) for every map iteration in an Artela function of package vm, the iteration order cannot reach a result - every slice built in the loop is sorted in a block dominating each return; (ii) no function of vm reads the clock, a random source or the environment; (iii) package frame: outside init no function assigns, inserts into or mutates (through a receiver-assigning uint256 method) any package-level variable, so nothing recorded by one EVM instance is visible through another.",
   note="determinism of the host, StateDB and Aspect runtime is assumed; the comparator of a sort is assumed to be a total order on distinct keys; repeated-execution equality beyond the absence of nondeterminism sources is not explored."),
 "C17": dict(claimed=True, cat="proof", tech="contract-based deductive verification: ownership lemmas as whole-package frame obligations over go/ssa (no interleaving is explored)",
   text="Proof of the ownership and cancellation lemmas only: package frame (instances share only immutable package data), no goroutines or channels inside vm / tracers/native, and the abort flag is a sync/atomic.Bool touched only through its methods.",
   note="NO interleaving is explored; the Go memory model, sync.Pool, the StateDB and the djpm global are trusted; 'promptly' is not measured. Contracts cannot quantify over schedules - this check decides only the lemmas the statement itself names ('share no mutable data')."),
 "C18": dict(claimed=True, cat="proof", tech="contract-based deductive verification: relational contracts (EQ with go-ethereum v1.12.0) over tracers/** and every EVMLogger call site of vm",
   text="EQ obligations for every paired declaration of tracers, tracers/logger, tracers/native, vm/logger.go and every vm function that calls an EVMLogger hook; the Artela deltas (Aspect frames in the call tracers) are declared and erased.",
   note="as C01; encoding/json omitempty semantics assumed; balance of enter/exit on the join-point failure exits of Call is being added as a unary obligation."),
}
REASON_PENDING = "not claimed yet in this revision: the contracts that decide it (ghost monitors on EVM.Call/create, call-tree and key-tree invariants, tracer invariants, work counter) are still under construction; nothing is reported for it"
for pid in ["C04", "C05", "C06", "C07", "C08", "C10", "C11", "C13", "C19", "C20"]:
    P.setdefault(pid, dict(claimed=False, reason=REASON_PENDING))

def main():
    m = json.load(open("/verif/MANIFEST.json"))
    checks, na = [], []
    for pid in sorted(P):
        e = P[pid]
        if not e.get("claimed"):
            na.append({"property_id": pid, "reason": e["reason"]})
            continue
        checks.append({
            "property_id": pid,
            "quick_cmd": "cd /verif && bin/verif check %s --tier quick" % pid,
            "thorough_cmd": "cd /verif && bin/verif check %s --tier thorough" % pid,
            "evidence_file": "/verif/evidence/%s.json" % pid,
            "replay_cmd_template": "cat {path}",
            "engine": "govc/goeq/ground/syntactic via bin/verif",
            "level_claimed": {"category": e["cat"], "text": e["text"], "design_ref": "DESIGN.md section 4 (%s)" % pid},
            "level_note": e["note"],
            "technique": e["tech"],
        })
    m["checks"] = checks
    m["not_applicable"] = na
    json.dump(m, open("/verif/MANIFEST.json", "w"), indent=1)
    print("claimed:", [c["property_id"] for c in checks])

main()
