#!/usr/bin/env bash
# Builds the differential replay harness offline against the *current working
# tree* of the artela-evm checkout.
#   ./build.sh                                   -> /verif/bin/diffrun        (replace => /repo)
#   HARNESS_REPO=/tmp/goeq_scratch ./build.sh    -> /verif/bin/diffrun.scratch (replace => that copy)
#   HARNESS_OUT=/path/to/binary overrides the output path.
set -euo pipefail
HERE="$(cd "$(dirname "$0")" && pwd)"
REPO="${HARNESS_REPO:-/repo}"
if [ "$REPO" = "/repo" ]; then DEF_OUT="$HERE/../bin/diffrun"; else DEF_OUT="$HERE/../bin/diffrun.scratch"; fi
OUT="${HARNESS_OUT:-$DEF_OUT}"
export GOFLAGS=-mod=mod GOPROXY=off GOSUMDB=off GOTOOLCHAIN=local
[ -f "$REPO/go.mod" ] || { echo "build.sh: $REPO/go.mod not found" >&2; exit 2; }
cd "$HERE"
# go.mod is regenerated on every build: module versions and replace directives
# are taken from $REPO/go.mod so that both EVMs see the dependency versions the
# checkout was written against.
ver() { awk -v m="$1" '$1==m {print $2; exit} $1=="require" && $2==m {print $3; exit}' "$REPO/go.mod"; }
{
  echo "module harness"
  echo
  echo "go 1.20"
  echo
  echo "require ("
  echo "	github.com/artela-network/artela-evm v0.0.0"
  for m in github.com/artela-network/aspect-core github.com/ethereum/go-ethereum github.com/holiman/uint256; do
    echo "	$m $(ver $m)"
  done
  echo ")"
  echo
  echo "replace github.com/artela-network/artela-evm => $REPO"
  # replace directives of the checkout only apply to a main module: repeat them
  grep -E '^replace ' "$REPO/go.mod" | grep -v 'artela-evm =>' || true
} > go.mod
cp "$REPO/go.sum" go.sum
mkdir -p "$(dirname "$OUT")"
go build -o "$OUT" ./cmd/diffrun
echo "built $OUT (artela-evm => $REPO)"
if [ "$REPO" != "/repo" ]; then
  # leave the committed go.mod pointing at /repo
  sed -i "s#^replace github.com/artela-network/artela-evm => .*#replace github.com/artela-network/artela-evm => /repo#" go.mod
fi
