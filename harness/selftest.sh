#!/usr/bin/env bash
# Self-test of the differential replay harness: build it against a mutated
# scratch copy of the checkout and require a concrete disagreement; build it
# against the unchanged copy and require none.
#   usage: harness/selftest.sh [REPO=/repo]
set -u
REPO="${1:-/repo}"
HERE="$(cd "$(dirname "$0")" && pwd)"
SCR="$(mktemp -d /tmp/diffrun_selftest.XXXXXX)"
trap 'rm -rf "$SCR"' EXIT
rc=0
fresh() { rm -rf "$SCR/repo"; mkdir -p "$SCR/repo"; cp -r "$REPO/vm" "$REPO/core" "$REPO/tracers" "$REPO/go.mod" "$REPO/go.sum" "$SCR/repo/"; }
# case NAME EXPECT_EXIT ARGS...
run() {
  local name="$1" want="$2"; shift 2
  HARNESS_REPO="$SCR/repo" HARNESS_OUT="$SCR/diffrun" "$HERE/build.sh" >/dev/null || { echo "FAIL  $name: build failed"; rc=1; return; }
  "$SCR/diffrun" "$@" --out "$SCR/out.json" 2>"$SCR/err.txt"; local code=$?
  if [ $code -eq "$want" ]; then echo "PASS  $name   ($(head -1 "$SCR/err.txt"))"
  else echo "FAIL  $name   exit $code, wanted $want"; head -5 "$SCR/err.txt"; rc=1; fi
  if [ "$want" -eq 1 ]; then
    "$SCR/diffrun" --replay "$SCR/out.json" --index 0 >"$SCR/replay.txt" 2>&1
    if [ $? -eq 1 ]; then echo "      replay of disagreement #0 reproduces: $(grep -m1 '^DIFF' "$SCR/replay.txt")"
    else echo "FAIL  $name: replay did not reproduce"; rc=1; fi
  fi
}
fresh
run "0 unchanged tree, 500 programs x all forks: no disagreement" 0 --seed 11 --count 500 --fork all
fresh
perl -0pi -e 's/square \/ params\.QuadCoeffDiv/square \/ (params.QuadCoeffDiv - 1)/' "$SCR/repo/vm/gas_table.go"
run "1 memoryGasCost mutated: disagreement found" 1 --seed 11 --count 200 --fork all --focus memoryGasCost
fresh
perl -0pi -e 's/y\.Sub\(&x, y\)/y.Sub(y, &x)/' "$SCR/repo/vm/instructions.go"
run "2 opSub mutated: disagreement found" 1 --seed 11 --count 200 --fork all --focus opSub
fresh
perl -0pi -e 's/(if err != ErrExecutionReverted \{\n)\t+gas = 0\n/$1/' "$SCR/repo/vm/evm.go"
run "3 Call: gas = 0 deleted: disagreement found" 1 --seed 11 --count 300 --fork all
exit $rc
