package main

import (
	"context"
	"fmt"
	"math/big"
	"runtime/debug"
	"strings"

	"github.com/ethereum/go-ethereum/common"
	"github.com/ethereum/go-ethereum/core/rawdb"
	"github.com/ethereum/go-ethereum/core/state"
	"github.com/ethereum/go-ethereum/core/types"
	"github.com/ethereum/go-ethereum/crypto"
	"github.com/ethereum/go-ethereum/params"

	acore "github.com/artela-network/artela-evm/core"
	avm "github.com/artela-network/artela-evm/vm"
	"github.com/artela-network/aspect-core/djpm"
	atypes "github.com/artela-network/aspect-core/types"
	ucore "github.com/ethereum/go-ethereum/core"
	uvm "github.com/ethereum/go-ethereum/core/vm"
)

// ---------------------------------------------------------------------------
// Aspect runtime: a provider that binds nothing.

type noAspects struct{}

func (noAspects) GetTxBondAspects(context.Context, common.Address, atypes.PointCut) ([]*atypes.AspectCode, error) {
	return nil, nil
}
func (noAspects) GetAccountVerifiers(context.Context, common.Address) ([]*atypes.AspectCode, error) {
	return nil, nil
}
func (noAspects) GetLatestBlock() int64 { return 0 }

func initAspect() { djpm.NewAspect(noAspects{}, atypes.NoOpsLogger{}) }

// ---------------------------------------------------------------------------
// forks

type Fork struct {
	Name   string
	Config *params.ChainConfig
	Merge  bool
}

var forkNames = []string{"Frontier", "Homestead", "TangerineWhistle", "SpuriousDragon", "Byzantium",
	"Constantinople", "Petersburg", "Istanbul", "Berlin", "London", "Merge", "Shanghai"}

const blockNumber = 100
const blockTime = 1000

func forkByName(name string) (Fork, error) {
	idx := -1
	for i, n := range forkNames {
		if strings.EqualFold(n, name) {
			idx = i
		}
	}
	if idx < 0 {
		return Fork{}, fmt.Errorf("unknown fork %q (known: %s)", name, strings.Join(forkNames, ", "))
	}
	z := func(min int) *big.Int {
		if idx >= min {
			return big.NewInt(0)
		}
		return nil
	}
	c := &params.ChainConfig{
		ChainID:             big.NewInt(1337),
		HomesteadBlock:      z(1),
		EIP150Block:         z(2),
		EIP155Block:         z(3),
		EIP158Block:         z(3),
		ByzantiumBlock:      z(4),
		ConstantinopleBlock: z(5),
		PetersburgBlock:     z(6),
		IstanbulBlock:       z(7),
		MuirGlacierBlock:    z(7),
		BerlinBlock:         z(8),
		LondonBlock:         z(9),
	}
	if idx == 5 {
		// Constantinople without the Petersburg fix (EIP-1283 net gas metering active)
		c.PetersburgBlock = big.NewInt(1 << 40)
	}
	f := Fork{Name: forkNames[idx], Config: c}
	if idx >= 10 {
		f.Merge = true
		c.TerminalTotalDifficulty = big.NewInt(0)
		c.TerminalTotalDifficultyPassed = true
	}
	if idx >= 11 {
		t := uint64(0)
		c.ShanghaiTime = &t
	}
	return f, nil
}

// ---------------------------------------------------------------------------
// pre-state

var (
	addrSender = common.HexToAddress("0x00000000000000000000000000000000000a11ce")
	addrMain   = common.HexToAddress("0x000000000000000000000000000000000000c0de")
	addrCallee = common.HexToAddress("0x0000000000000000000000000000000000000b0b")
	addrEOA    = common.HexToAddress("0x0000000000000000000000000000000000000e0a")
	addrNone   = common.HexToAddress("0x000000000000000000000000000000000000dead")
	addrCoin   = common.HexToAddress("0x00000000000000000000000000000000000c01b5")
)

type preState struct {
	db   state.Database
	root common.Hash
}

func buildPreState(p *Program) (*preState, error) {
	db := state.NewDatabase(rawdb.NewMemoryDatabase())
	s, err := state.New(types.EmptyRootHash, db, nil)
	if err != nil {
		return nil, err
	}
	s.SetBalance(addrSender, new(big.Int).Exp(big.NewInt(10), big.NewInt(20), nil))
	s.SetNonce(addrSender, 1)
	if !p.Create {
		s.SetCode(addrMain, p.Code)
	}
	s.SetNonce(addrMain, 1)
	s.SetBalance(addrMain, big.NewInt(1_000_000))
	s.SetState(addrMain, common.BigToHash(big.NewInt(0)), common.BigToHash(big.NewInt(1)))
	s.SetState(addrMain, common.BigToHash(big.NewInt(1)), common.HexToHash("0xffffffffffffffffffffffffffffffffffffffffffffffffffffffffffffffff"))
	s.SetState(addrMain, common.BigToHash(big.NewInt(3)), common.BigToHash(big.NewInt(0x1234)))
	s.SetCode(addrCallee, p.Callee)
	s.SetNonce(addrCallee, 1)
	s.SetBalance(addrCallee, big.NewInt(5))
	s.SetState(addrCallee, common.BigToHash(big.NewInt(0)), common.BigToHash(big.NewInt(7)))
	s.SetBalance(addrEOA, big.NewInt(1))
	root, err := s.Commit(false)
	if err != nil {
		return nil, err
	}
	return &preState{db: db, root: root}, nil
}

// ---------------------------------------------------------------------------
// result of one execution

type LogRec struct {
	Address common.Address
	Topics  []common.Hash
	Data    string
}

type Result struct {
	Ret         string
	Err         string
	Gas         uint64 // leftover
	Refund      uint64
	Logs        []LogRec
	Root        common.Hash
	CreatedAddr common.Address
	Events      []Event
	Overflow    bool
	OutOfDomain string
	Panic       string
}

func getHash(n uint64) common.Hash {
	return crypto.Keccak256Hash([]byte(fmt.Sprintf("block-%d", n)))
}

func collectLogs(s *state.StateDB) []LogRec {
	var out []LogRec
	for _, l := range s.Logs() {
		out = append(out, LogRec{Address: l.Address, Topics: append([]common.Hash(nil), l.Topics...), Data: string(l.Data)})
	}
	return out
}

var randomHash = common.HexToHash("0x00000000000000000000000000000000000000000000000000000000deadbeef")

func runUpstream(p *Program, f Fork, ps *preState, trace bool) (res Result) {
	defer func() {
		if r := recover(); r != nil {
			res.Panic = fmt.Sprintf("%v\n%s", r, debug.Stack())
			res.Err = "panic: " + fmt.Sprint(r)
		}
	}()
	s, err := state.New(ps.root, ps.db, nil)
	if err != nil {
		panic(err)
	}
	bctx := uvm.BlockContext{
		CanTransfer: ucore.CanTransfer, Transfer: ucore.Transfer,
		GetHash:  getHash,
		Coinbase: addrCoin, GasLimit: 30_000_000, BlockNumber: big.NewInt(blockNumber), Time: blockTime,
		Difficulty: big.NewInt(0x20000), BaseFee: big.NewInt(7),
	}
	if f.Merge {
		r := randomHash
		bctx.Random = &r
		bctx.Difficulty = big.NewInt(0)
	}
	rec := &upRec{}
	cfg := uvm.Config{}
	if trace {
		cfg.Tracer = rec
	}
	evm := uvm.NewEVM(bctx, uvm.TxContext{Origin: addrSender, GasPrice: big.NewInt(11)}, s, f.Config, cfg)
	rules := f.Config.Rules(bctx.BlockNumber, bctx.Random != nil, bctx.Time)
	s.SetTxContext(common.HexToHash("0x01"), 0)
	var dst *common.Address
	if !p.Create {
		d := addrMain
		dst = &d
	}
	s.Prepare(rules, addrSender, addrCoin, dst, uvm.ActivePrecompiles(rules), nil)
	value := new(big.Int).SetUint64(p.Value)
	var ret []byte
	var left uint64
	if p.Create {
		var a common.Address
		ret, a, left, err = evm.Create(uvm.AccountRef(addrSender), p.Code, p.Gas, value)
		res.CreatedAddr = a
	} else {
		ret, left, err = evm.Call(uvm.AccountRef(addrSender), addrMain, p.Calldata, p.Gas, value)
	}
	res.Ret, res.Err, res.Gas = string(ret), errStr(err), left
	res.Refund = s.GetRefund()
	res.Logs = collectLogs(s)
	res.Root = s.IntermediateRoot(rules.IsEIP158)
	res.Events, res.Overflow, res.OutOfDomain = rec.events, rec.overflow, rec.outOfDomain
	return
}

func runArtela(p *Program, f Fork, ps *preState, trace bool) (res Result) {
	defer func() {
		if r := recover(); r != nil {
			res.Panic = fmt.Sprintf("%v\n%s", r, debug.Stack())
			res.Err = "panic: " + fmt.Sprint(r)
		}
	}()
	s, err := state.New(ps.root, ps.db, nil)
	if err != nil {
		panic(err)
	}
	bctx := avm.BlockContext{
		CanTransfer: acore.CanTransfer, Transfer: acore.Transfer,
		GetHash:  getHash,
		Coinbase: addrCoin, GasLimit: 30_000_000, BlockNumber: big.NewInt(blockNumber), Time: blockTime,
		Difficulty: big.NewInt(0x20000), BaseFee: big.NewInt(7),
	}
	if f.Merge {
		r := randomHash
		bctx.Random = &r
		bctx.Difficulty = big.NewInt(0)
	}
	rec := &arRec{}
	cfg := avm.Config{}
	if trace {
		cfg.Tracer = rec
	}
	evm := avm.NewEVM(bctx, avm.TxContext{Origin: addrSender, GasPrice: big.NewInt(11)}, s, f.Config, cfg)
	rules := f.Config.Rules(bctx.BlockNumber, bctx.Random != nil, bctx.Time)
	s.SetTxContext(common.HexToHash("0x01"), 0)
	var dst *common.Address
	if !p.Create {
		d := addrMain
		dst = &d
	}
	s.Prepare(rules, addrSender, addrCoin, dst, avm.ActivePrecompiles(rules), nil)
	value := new(big.Int).SetUint64(p.Value)
	ctx := context.Background()
	var ret []byte
	var left uint64
	if p.Create {
		var a common.Address
		ret, a, left, err = evm.Create(ctx, avm.AccountRef(addrSender), p.Code, p.Gas, value)
		res.CreatedAddr = a
	} else {
		ret, left, err = evm.Call(ctx, avm.AccountRef(addrSender), addrMain, p.Calldata, p.Gas, value)
	}
	res.Ret, res.Err, res.Gas = string(ret), errStr(err), left
	res.Refund = s.GetRefund()
	res.Logs = collectLogs(s)
	res.Root = s.IntermediateRoot(rules.IsEIP158)
	res.Events, res.Overflow, res.OutOfDomain = rec.events, rec.overflow, rec.outOfDomain
	return
}

// Diff describes the first difference between two results.
type Diff struct {
	What     string `json:"what"`
	Upstream string `json:"upstream"`
	Artela   string `json:"artela"`
	Context  string `json:"context,omitempty"`
}

func compare(u, a *Result) []Diff {
	var d []Diff
	add := func(what, x, y string) { d = append(d, Diff{What: what, Upstream: x, Artela: y}) }
	if u.Panic != "" || a.Panic != "" {
		if (u.Panic == "") != (a.Panic == "") || u.Err != a.Err {
			add("panic", u.Panic, a.Panic)
		}
	}
	if u.Err != a.Err {
		add("error", u.Err, a.Err)
	}
	if u.Ret != a.Ret {
		add("return_data", fmt.Sprintf("%x", u.Ret), fmt.Sprintf("%x", a.Ret))
	}
	if u.Gas != a.Gas {
		add("leftover_gas", fmt.Sprint(u.Gas), fmt.Sprint(a.Gas))
	}
	if u.Refund != a.Refund {
		add("refund", fmt.Sprint(u.Refund), fmt.Sprint(a.Refund))
	}
	if u.CreatedAddr != a.CreatedAddr {
		add("created_address", u.CreatedAddr.Hex(), a.CreatedAddr.Hex())
	}
	if fmt.Sprint(u.Logs) != fmt.Sprint(a.Logs) || len(u.Logs) != len(a.Logs) {
		add("logs", fmtLogs(u.Logs), fmtLogs(a.Logs))
	}
	if u.Root != a.Root {
		add("state_root", u.Root.Hex(), a.Root.Hex())
	}
	n := len(u.Events)
	if len(a.Events) < n {
		n = len(a.Events)
	}
	first := -1
	for i := 0; i < n; i++ {
		if u.Events[i] != a.Events[i] {
			first = i
			break
		}
	}
	if first < 0 && len(u.Events) != len(a.Events) {
		first = n
	}
	if first >= 0 {
		get := func(ev []Event, i int) string {
			if i < len(ev) {
				return ev[i].String()
			}
			return "<no event: stream ended>"
		}
		prev := ""
		if first > 0 {
			prev = "previous common event: " + u.Events[first-1].String()
		}
		d = append(d, Diff{What: fmt.Sprintf("trace_event[%d] (streams have %d/%d events)", first, len(u.Events), len(a.Events)),
			Upstream: get(u.Events, first), Artela: get(a.Events, first), Context: prev})
	}
	return d
}

func fmtLogs(l []LogRec) string {
	var sb strings.Builder
	for i, x := range l {
		fmt.Fprintf(&sb, "#%d %s topics=%v data=%x; ", i, x.Address.Hex(), x.Topics, x.Data)
	}
	return sb.String()
}
