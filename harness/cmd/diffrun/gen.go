package main

import (
	"encoding/binary"
	"fmt"
	"math/rand"
	"strings"

	"github.com/holiman/uint256"

	uvm "github.com/ethereum/go-ethereum/core/vm"
)

// Program is one generated test case; it is everything needed to replay.
type Program struct {
	Seed     int64  `json:"seed"`
	Index    int    `json:"index"`
	Code     []byte `json:"-"`
	Callee   []byte `json:"-"`
	Calldata []byte `json:"-"`
	Value    uint64 `json:"value"`
	Gas      uint64 `json:"gas"`
	Create   bool   `json:"create"`
}

// ---------------------------------------------------------------------------
// opcode domain: everything defined up to Shanghai in go-ethereum v1.12.0.
// Deliberately a static list: bytes 0x5c-0x5e, 0xb3, 0xb4, 0xe0-0xe7, 0x49, 0x4a
// are never emitted as opcodes.

var domainOps = func() []byte {
	var ops []byte
	rng := func(a, b byte) {
		for x := int(a); x <= int(b); x++ {
			ops = append(ops, byte(x))
		}
	}
	rng(0x00, 0x0b)
	rng(0x10, 0x1d)
	rng(0x20, 0x20)
	rng(0x30, 0x48)
	rng(0x50, 0x5b)
	rng(0x5f, 0x7f)
	rng(0x80, 0x9f)
	rng(0xa0, 0xa4)
	rng(0xf0, 0xf5)
	ops = append(ops, 0xfa, 0xfd, 0xfe, 0xff)
	return ops
}()

// undefined in both implementations in every compared fork
var undefinedOps = []byte{0x0c, 0x0f, 0x1e, 0x21, 0x2f, 0x4f, 0xa5, 0xbb, 0xc0, 0xd7, 0xef, 0xf6, 0xf9, 0xfb, 0xfc}

func opWeight(op byte) int {
	switch {
	case op == 0x00 || op == 0xfe || op == 0xff || op == 0xf3 || op == 0xfd: // terminators
		return 2
	case op == 0xf1 || op == 0xf2 || op == 0xf4 || op == 0xfa: // calls
		return 14
	case op == 0xf0 || op == 0xf5: // creates
		return 8
	case op == 0x54 || op == 0x55: // SLOAD SSTORE
		return 12
	case op >= 0x51 && op <= 0x53, op == 0x20, op == 0x37, op == 0x39, op == 0x3c, op == 0x3e: // memory
		return 8
	case op >= 0xa0 && op <= 0xa4:
		return 4
	case op >= 0x60 && op <= 0x9f: // push/dup/swap: many of them
		return 1
	case op == 0x56 || op == 0x57 || op == 0x5b:
		return 5
	}
	return 3
}

// ---------------------------------------------------------------------------
// assembler

type fixup struct {
	at    int
	label int // >=0 label id ; <0: data segment -(id+1)
}

type asm struct {
	buf    []byte
	fix    []fixup
	labels map[int]int
	nlabel int
	data   [][]byte
}

func newAsm() *asm { return &asm{labels: map[int]int{}} }

func (a *asm) op(b ...byte) { a.buf = append(a.buf, b...) }

func (a *asm) push(v *uint256.Int) {
	b := v.Bytes()
	if len(b) == 0 {
		b = []byte{0}
	}
	a.buf = append(a.buf, byte(0x5f+len(b)))
	a.buf = append(a.buf, b...)
}

func (a *asm) pushU(n uint64) { a.push(uint256.NewInt(n)) }

func (a *asm) pushBytes(b []byte) { // exact width push
	a.buf = append(a.buf, byte(0x5f+len(b)))
	a.buf = append(a.buf, b...)
}

func (a *asm) newLabel() int { a.nlabel++; return a.nlabel - 1 }

func (a *asm) pushLabel(l int) {
	a.buf = append(a.buf, 0x61, 0, 0)
	a.fix = append(a.fix, fixup{len(a.buf) - 2, l})
}

func (a *asm) place(l int) { a.labels[l] = len(a.buf); a.op(0x5b) }

// pushData pushes the code offset of data segment id (PUSH2).
func (a *asm) pushData(id int) {
	a.buf = append(a.buf, 0x61, 0, 0)
	a.fix = append(a.fix, fixup{len(a.buf) - 2, -(id + 1)})
}

func (a *asm) addData(b []byte) int { a.data = append(a.data, b); return len(a.data) - 1 }

func (a *asm) assemble() []byte {
	out := append([]byte(nil), a.buf...)
	out = append(out, 0x00) // STOP between code and data
	offs := make([]int, len(a.data))
	for i, d := range a.data {
		offs[i] = len(out)
		out = append(out, d...)
	}
	for _, f := range a.fix {
		var v int
		if f.label >= 0 {
			v = a.labels[f.label]
		} else {
			v = offs[-f.label-1]
		}
		binary.BigEndian.PutUint16(out[f.at:], uint16(v))
	}
	return out
}

// ---------------------------------------------------------------------------
// generator

type gen struct {
	r        *rand.Rand
	a        *asm
	focus    []byte // opcodes to favour
	bigMem   bool   // favour large memory offsets
	precomp  bool   // favour precompile targets
	level    int    // 0 main, 1 callee, 2 initcode, 3 runtime code
	inLoop   bool
	pool     []byte
	poolSum  int
	poolCum  []int
	nSnippet int
	maxFork  int // index into forkNames: the program only uses opcodes that exist from this fork on (mostly)
}

// opMinFork is the index (in forkNames) of the first fork that defines op.
func opMinFork(op byte) int {
	switch op {
	case 0xf4:
		return 1
	case 0xfd, 0x3d, 0x3e, 0xfa:
		return 4
	case 0x1b, 0x1c, 0x1d, 0x3f, 0xf5:
		return 5
	case 0x46, 0x47:
		return 7
	case 0x48:
		return 9
	case 0x5f:
		return 11
	}
	return 0
}

func (g *gen) allowed(op byte) bool { return opMinFork(op) <= g.maxFork }

var interesting = func() []*uint256.Int {
	h := func(s string) *uint256.Int { v, _ := uint256.FromHex(s); return v }
	return []*uint256.Int{
		uint256.NewInt(0), uint256.NewInt(1), uint256.NewInt(2), uint256.NewInt(3), uint256.NewInt(5), uint256.NewInt(7),
		uint256.NewInt(31), uint256.NewInt(32), uint256.NewInt(33), uint256.NewInt(255), uint256.NewInt(256), uint256.NewInt(257),
		uint256.NewInt(0xffff), uint256.NewInt(0xffffffff), uint256.NewInt(1 << 32), uint256.NewInt(^uint64(0)),
		h("0x10000000000000000"), h("0x100000000000000000000000000000000"),
		h("0x7fffffffffffffffffffffffffffffffffffffffffffffffffffffffffffffff"),
		h("0x8000000000000000000000000000000000000000000000000000000000000000"),
		h("0xffffffffffffffffffffffffffffffffffffffffffffffffffffffffffffffff"),
		h("0xfffffffffffffffffffffffffffffffffffffffffffffffffffffffffffffffe"),
		h("0xffffffffffffffffffffffffffffffff"),
	}
}()

func (g *gen) word() *uint256.Int {
	switch g.r.Intn(10) {
	case 0, 1, 2, 3, 4:
		return interesting[g.r.Intn(len(interesting))].Clone()
	case 5, 6:
		return uint256.NewInt(uint64(g.r.Intn(1024)))
	case 7:
		return uint256.NewInt(g.r.Uint64())
	default:
		var b [32]byte
		g.r.Read(b[:])
		n := g.r.Intn(33)
		return new(uint256.Int).SetBytes(b[:n])
	}
}

func (g *gen) memOff() *uint256.Int {
	k := g.r.Intn(100)
	if g.bigMem {
		k = g.r.Intn(130)
	}
	switch {
	case k < 55:
		return uint256.NewInt([]uint64{0, 0, 1, 31, 32, 33, 64, 96, 128, 160, 255, 256}[g.r.Intn(12)])
	case k < 80:
		return uint256.NewInt(uint64(g.r.Intn(2048)))
	case k < 92:
		return uint256.NewInt([]uint64{0x1000, 0x2000, 0x4000, 0x7fe0, 0x8000}[g.r.Intn(5)])
	case k < 96:
		return uint256.NewInt(0x20000 + uint64(g.r.Intn(0x20000)))
	case k < 98:
		return uint256.NewInt([]uint64{1 << 32, 1<<32 - 1, 1<<64 - 1, 1<<64 - 32, 0x1fffffffe0, 0x1fffffffe1}[g.r.Intn(6)])
	case k < 100:
		if g.r.Intn(2) == 0 {
			return uint256.NewInt(uint64(g.r.Intn(4096)))
		}
		return g.word()
	default: // bigMem extra
		return uint256.NewInt(uint64(1+g.r.Intn(64)) * 1024)
	}
}

func (g *gen) memLen() *uint256.Int {
	k := g.r.Intn(100)
	switch {
	case k < 15:
		return uint256.NewInt(0)
	case k < 70:
		return uint256.NewInt([]uint64{1, 2, 4, 20, 31, 32, 33, 36, 64, 68, 96, 100, 128, 192, 256}[g.r.Intn(15)])
	case k < 90:
		return uint256.NewInt(uint64(g.r.Intn(600)))
	case k < 98:
		return uint256.NewInt(uint64(1024 + g.r.Intn(8192)))
	default:
		return g.word()
	}
}

func (g *gen) address() *uint256.Int {
	k := g.r.Intn(100)
	if g.precomp && k < 60 {
		k = 55
	}
	switch {
	case k < 25:
		return new(uint256.Int).SetBytes(addrCallee.Bytes())
	case k < 32:
		return new(uint256.Int).SetBytes(addrMain.Bytes())
	case k < 40:
		return new(uint256.Int).SetBytes(addrEOA.Bytes())
	case k < 48:
		return new(uint256.Int).SetBytes(addrNone.Bytes())
	case k < 85:
		return uint256.NewInt(uint64(1 + g.r.Intn(9))) // precompiles 1..9
	case k < 90:
		return uint256.NewInt(0)
	case k < 94:
		return new(uint256.Int).SetBytes(addrSender.Bytes())
	case k < 97:
		return uint256.NewInt(uint64(10 + g.r.Intn(80))) // small non-precompile, never 0x64..0x66
	default:
		// dirty upper bits over a known address
		v := new(uint256.Int).SetBytes(addrCallee.Bytes())
		hi := new(uint256.Int).Lsh(uint256.NewInt(uint64(1+g.r.Intn(0xffff))), 160)
		return v.Or(v, hi)
	}
}

func (g *gen) callGas() {
	k := g.r.Intn(100)
	switch {
	case k < 35:
		g.a.op(0x5a) // GAS
	case k < 85:
		g.a.pushU([]uint64{0, 1, 100, 700, 2300, 2301, 5000, 9000, 25000, 30000, 50000, 100000}[g.r.Intn(12)])
	case k < 93:
		g.a.pushU(uint64(g.r.Intn(60000)))
	default:
		g.a.push(g.word())
	}
}

func (g *gen) callValue() {
	k := g.r.Intn(100)
	switch {
	case k < 65:
		g.a.pushU(0)
	case k < 85:
		g.a.pushU(1)
	case k < 93:
		g.a.pushU(uint64(g.r.Intn(2000)))
	default:
		g.a.push(interesting[16+g.r.Intn(5)])
	}
}

// sink disposes of one result on the stack.
func (g *gen) sink() {
	switch k := g.r.Intn(10); {
	case k < 4:
		g.a.op(0x50)
	case k < 8:
		g.a.pushU(uint64(g.r.Intn(8)) * 32)
		g.a.op(0x52)
	case k < 9:
		g.a.pushU(uint64(g.r.Intn(6)))
		g.a.op(0x55)
	default:
		g.a.op(0x80, 0x50, 0x50) // DUP1 POP POP
	}
}

func (g *gen) buildPool() {
	g.pool = domainOps
	g.poolCum = make([]int, len(g.pool))
	s := 0
	for i, op := range g.pool {
		s += opWeight(op)
		g.poolCum[i] = s
	}
	g.poolSum = s
}

func (g *gen) pickOp() byte {
	if len(g.focus) > 0 && g.r.Intn(100) < 45 {
		return g.focus[g.r.Intn(len(g.focus))]
	}
	for try := 0; ; try++ {
		x := g.r.Intn(g.poolSum)
		for i, c := range g.poolCum {
			if x < c {
				// an opcode the target fork does not have yet is kept only rarely
				if g.allowed(g.pool[i]) || try > 8 || g.r.Intn(25) == 0 {
					return g.pool[i]
				}
				break
			}
		}
	}
}

var arity = map[byte]int{
	0x01: 2, 0x02: 2, 0x03: 2, 0x04: 2, 0x05: 2, 0x06: 2, 0x07: 2, 0x08: 3, 0x09: 3, 0x0a: 2, 0x0b: 2,
	0x10: 2, 0x11: 2, 0x12: 2, 0x13: 2, 0x14: 2, 0x15: 1, 0x16: 2, 0x17: 2, 0x18: 2, 0x19: 1, 0x1a: 2, 0x1b: 2, 0x1c: 2, 0x1d: 2,
}

// terminator emits code that ends the frame.
func (g *gen) terminator(op byte) {
	a := g.a
	switch op {
	case 0xf3, 0xfd:
		a.push(g.memLen())
		a.push(g.memOff())
		a.op(op)
	case 0xff:
		a.push(g.address())
		a.op(0xff)
	default:
		a.op(op)
	}
}

// guarded wraps a terminator so that it is skipped most of the time.
func (g *gen) guarded(f func()) {
	a := g.a
	l := a.newLabel()
	// condition: mostly true (skip)
	switch k := g.r.Intn(10); {
	case k < 6:
		a.pushU(1)
	case k < 8:
		a.pushU(0)
	default:
		a.op(0x36) // CALLDATASIZE
	}
	a.pushLabel(l)
	a.op(0x57)
	f()
	a.place(l)
}

func (g *gen) initcode() []byte {
	sub := &gen{r: g.r, a: newAsm(), level: 2, focus: g.focus, bigMem: g.bigMem, precomp: g.precomp, maxFork: g.maxFork}
	sub.buildPool()
	return sub.program(1 + g.r.Intn(4))
}

func (g *gen) runtimeCode() []byte {
	sub := &gen{r: g.r, a: newAsm(), level: 3, focus: g.focus, maxFork: g.maxFork}
	sub.buildPool()
	code := sub.program(1 + g.r.Intn(3))
	switch g.r.Intn(12) {
	case 0:
		code = append([]byte{0xef}, code...) // EIP-3541
	case 1:
		code = append(code, make([]byte, 24577-len(code)%24577)...) // > MaxCodeSize (EIP-170)
	}
	return code
}

// snippet emits one stack-neutral fragment exercising op.
func (g *gen) snippet(op byte) {
	a := g.a
	g.nSnippet++
	if n, ok := arity[op]; ok {
		for i := 0; i < n; i++ {
			if op == 0x0a && i == 0 && g.r.Intn(3) > 0 {
				a.pushU(uint64(g.r.Intn(300))) // EXP: exponent is pushed first? order irrelevant, keep cheap mostly
				continue
			}
			a.push(g.word())
		}
		a.op(op)
		g.sink()
		return
	}
	switch {
	case op == 0x20: // KECCAK256
		a.push(g.memLen())
		a.push(g.memOff())
		a.op(op)
		g.sink()
	case op == 0x30, op == 0x32, op == 0x33, op == 0x34, op == 0x36, op == 0x38, op == 0x3a, op == 0x3d,
		op >= 0x41 && op <= 0x48, op == 0x58, op == 0x59, op == 0x5a, op == 0x5f:
		a.op(op)
		g.sink()
	case op == 0x31, op == 0x3b, op == 0x3f:
		a.push(g.address())
		a.op(op)
		g.sink()
	case op == 0x35:
		a.push(g.memOff())
		a.op(op)
		g.sink()
	case op == 0x40:
		a.pushU(uint64(blockNumber - g.r.Intn(300) + 20))
		a.op(op)
		g.sink()
	case op == 0x37, op == 0x39, op == 0x3e:
		if op == 0x3e && g.r.Intn(4) > 0 {
			a.pushU(0) // in-bounds RETURNDATACOPY most of the time
			a.pushU(0)
		} else {
			a.push(g.memLen())
			a.push(g.memOff())
		}
		a.push(g.memOff())
		a.op(op)
	case op == 0x3c:
		a.push(g.memLen())
		a.push(g.memOff())
		a.push(g.memOff())
		a.push(g.address())
		a.op(op)
	case op == 0x50:
		a.push(g.word())
		a.op(op)
	case op == 0x51:
		a.push(g.memOff())
		a.op(op)
		g.sink()
	case op == 0x52, op == 0x53:
		a.push(g.word())
		a.push(g.memOff())
		a.op(op)
	case op == 0x54:
		a.pushU(uint64(g.r.Intn(6)))
		a.op(op)
		g.sink()
	case op == 0x55:
		switch g.r.Intn(4) {
		case 0:
			a.pushU(0)
		case 1:
			a.pushU(1)
		default:
			a.push(g.word())
		}
		a.pushU(uint64(g.r.Intn(6)))
		a.op(op)
	case op == 0x56: // JUMP: forward jump over a fragment, rarely a bad jump
		if g.r.Intn(12) == 0 {
			a.push(g.word())
			a.op(0x56)
			return
		}
		l := a.newLabel()
		a.pushLabel(l)
		a.op(0x56)
		a.op(undefinedOps[g.r.Intn(len(undefinedOps))]) // dead code
		a.place(l)
	case op == 0x57, op == 0x5b: // JUMPI: conditional skip or bounded loop
		if !g.inLoop && g.r.Intn(3) == 0 {
			g.loop()
			return
		}
		l := a.newLabel()
		a.push(g.word())
		a.pushLabel(l)
		a.op(0x57)
		if g.level < 3 {
			g.snippet(g.simpleOp())
		}
		a.place(l)
	case op >= 0x60 && op <= 0x7f:
		b := make([]byte, int(op-0x5f))
		g.r.Read(b)
		a.pushBytes(b)
		g.sink()
	case op >= 0x80 && op <= 0x8f: // DUPn
		n := int(op-0x80) + 1
		for i := 0; i < n; i++ {
			a.push(g.word())
		}
		a.op(op)
		g.sink()
		for i := 0; i < n; i++ {
			a.op(0x50)
		}
	case op >= 0x90 && op <= 0x9f: // SWAPn
		n := int(op-0x90) + 2
		for i := 0; i < n; i++ {
			a.push(g.word())
		}
		a.op(op)
		g.sink()
		for i := 0; i < n-1; i++ {
			a.op(0x50)
		}
	case op >= 0xa0 && op <= 0xa4:
		for i := 0; i < int(op-0xa0); i++ {
			a.push(g.word())
		}
		a.push(g.memLen())
		a.push(g.memOff())
		a.op(op)
	case op == 0xf0, op == 0xf5:
		if g.level >= 2 { // no nested creates from initcode/runtime code
			a.pushU(0)
			a.op(0x50)
			return
		}
		init := g.initcode()
		id := a.addData(init)
		off := uint64(g.r.Intn(4)) * 32
		a.pushU(uint64(len(init)))
		a.pushData(id)
		a.pushU(off)
		a.op(0x39) // CODECOPY
		if op == 0xf5 {
			a.push(g.word()) // salt
		}
		if g.r.Intn(8) == 0 {
			a.push(g.memLen())
		} else {
			a.pushU(uint64(len(init)))
		}
		a.pushU(off)
		g.callValue()
		a.op(op)
		// sometimes call the created contract
		if g.r.Intn(3) == 0 {
			a.pushU(0)
			a.pushU(0)
			a.pushU(0)
			a.pushU(0)
			a.pushU(0)
			a.op(0x85) // DUP6 -> addr
			a.op(0x5a) // GAS
			a.op(0xf1)
			a.op(0x50)
		}
		g.sink()
	case op == 0xf1, op == 0xf2, op == 0xf4, op == 0xfa:
		// optional calldata preparation
		if g.r.Intn(2) == 0 {
			a.push(g.word())
			a.pushU(uint64(g.r.Intn(4)) * 32)
			a.op(0x52)
		}
		a.push(g.memLen()) // out size
		a.push(g.memOff()) // out offset
		a.push(g.memLen()) // in size
		a.push(g.memOff()) // in offset
		if op == 0xf1 || op == 0xf2 {
			g.callValue()
		}
		a.push(g.address())
		g.callGas()
		a.op(op)
		g.sink()
		if g.r.Intn(3) == 0 && g.allowed(0x3d) {
			a.op(0x3d)
			g.sink()
		}
	case op == 0x00, op == 0xf3, op == 0xfd, op == 0xfe, op == 0xff:
		g.guarded(func() { g.terminator(op) })
	default:
		a.op(op)
	}
}

func (g *gen) simpleOp() byte {
	c := []byte{0x01, 0x02, 0x03, 0x04, 0x0a, 0x10, 0x14, 0x16, 0x1b, 0x20, 0x51, 0x52, 0x53, 0x54, 0x55, 0x59, 0x5a, 0xa1, 0x31, 0x3b}
	if len(g.focus) > 0 && g.r.Intn(2) == 0 {
		op := g.focus[g.r.Intn(len(g.focus))]
		if op != 0x56 && op != 0x57 && op != 0x5b {
			return op
		}
	}
	return c[g.r.Intn(len(c))]
}

func (g *gen) loop() {
	a := g.a
	g.inLoop = true
	defer func() { g.inLoop = false }()
	if g.r.Intn(25) == 0 { // stack overflow
		l := a.newLabel()
		a.pushU(1)
		a.place(l)
		a.op(0x80)
		a.pushLabel(l)
		a.op(0x56)
		return
	}
	l := a.newLabel()
	a.pushU(uint64(1 + g.r.Intn(6)))
	a.place(l)
	for i := 0; i < 1+g.r.Intn(3); i++ {
		g.snippet(g.simpleOp())
	}
	a.pushU(1)
	a.op(0x90, 0x03, 0x80) // SWAP1 SUB DUP1
	a.pushLabel(l)
	a.op(0x57, 0x50) // JUMPI POP
}

// program emits n snippets and a final terminator, and assembles.
func (g *gen) program(n int) []byte {
	a := g.a
	for i := 0; i < n; i++ {
		op := g.pickOp()
		if g.r.Intn(60) == 0 {
			// an undefined instruction or a stack underflow, guarded
			g.guarded(func() {
				if g.r.Intn(2) == 0 {
					a.op(undefinedOps[g.r.Intn(len(undefinedOps))])
				} else {
					a.op(0x50, 0x50, 0x01)
				}
			})
			continue
		}
		g.snippet(op)
	}
	switch g.level {
	case 2: // initcode: return runtime code
		rt := g.runtimeCode()
		id := a.addData(rt)
		a.pushU(uint64(len(rt)))
		a.pushData(id)
		a.pushU(0)
		a.op(0x39)
		if g.r.Intn(6) == 0 {
			t := []byte{0x00, 0xfd, 0xfe, 0xf3}[g.r.Intn(4)]
			if !g.allowed(t) {
				t = 0xfe
			}
			g.terminator(t)
		} else {
			a.pushU(uint64(len(rt)))
			a.pushU(0)
			a.op(0xf3)
		}
	default:
		t := []byte{0x00, 0x00, 0xf3, 0xf3, 0xf3, 0xfd, 0xfd, 0xfe, 0xff}[g.r.Intn(9)]
		if !g.allowed(t) {
			t = 0xf3
		}
		g.terminator(t)
	}
	return a.assemble()
}

// Focus parses --focus: opcode names, op<Name>/gas<Name> function names, or a
// few known function names.
type Focus struct {
	Ops     []byte
	BigMem  bool
	Precomp bool
}

var focusFuncs = map[string][]string{
	"memorygascost":          {"MSTORE", "MLOAD", "MSTORE8", "KECCAK256", "CALLDATACOPY", "CODECOPY", "RETURN", "LOG1", "CALL", "EXTCODECOPY"},
	"call":                   {"CALL"},
	"callcode":               {"CALLCODE"},
	"delegatecall":           {"DELEGATECALL"},
	"staticcall":             {"STATICCALL"},
	"create":                 {"CREATE", "CREATE2"},
	"create2":                {"CREATE2"},
	"runprecompiledcontract": {"CALL", "STATICCALL", "DELEGATECALL", "CALLCODE"},
	"requiredgas":            {"CALL", "STATICCALL"},
	"run":                    {},
	"gassstore":              {"SSTORE"},
	"gassstoreeip2200":       {"SSTORE"},
	"makegassstorefunc":      {"SSTORE"},
	"makegaslog":             {"LOG0", "LOG1", "LOG2", "LOG3", "LOG4"},
	"makelog":                {"LOG0", "LOG1", "LOG2", "LOG3", "LOG4"},
	"memorycopiergas":        {"CALLDATACOPY", "CODECOPY", "EXTCODECOPY", "RETURNDATACOPY"},
	"calcmemsize64":          {"MSTORE", "RETURN", "CALL", "LOG1", "KECCAK256"},
	"callgas":                {"CALL", "CALLCODE", "DELEGATECALL", "STATICCALL"},
	"gasselfdestruct":        {"SELFDESTRUCT"},
	"opsuicide":              {"SELFDESTRUCT"},
	"opsha3":                 {"KECCAK256"},
	"gassha3":                {"KECCAK256"},
}

func opByName(name string) (byte, bool) {
	name = strings.ToUpper(name)
	if name == "SHA3" {
		name = "KECCAK256"
	}
	for _, op := range domainOps {
		if uvm.OpCode(op).String() == name {
			return op, true
		}
	}
	return 0, false
}

func parseFocus(s string) (Focus, error) {
	var f Focus
	if strings.TrimSpace(s) == "" {
		return f, nil
	}
	for _, tok := range strings.Split(s, ",") {
		tok = strings.TrimSpace(tok)
		if tok == "" {
			continue
		}
		if i := strings.LastIndex(tok, "."); i >= 0 { // vm.(*EVM).Call -> Call
			tok = tok[i+1:]
		}
		low := strings.ToLower(tok)
		if op, ok := opByName(tok); ok {
			f.Ops = append(f.Ops, op)
			continue
		}
		if names, ok := focusFuncs[low]; ok {
			for _, n := range names {
				op, _ := opByName(n)
				f.Ops = append(f.Ops, op)
			}
			if low == "memorygascost" || low == "calcmemsize64" {
				f.BigMem = true
			}
			if low == "runprecompiledcontract" || low == "requiredgas" {
				f.Precomp = true
			}
			continue
		}
		found := false
		for _, pre := range []string{"op", "gas", "memory", "makegas"} {
			if strings.HasPrefix(low, pre) {
				rest := low[len(pre):]
				for _, suf := range []string{"", "eip150", "eip2929", "eip2200", "eip3529", "frontier", "homestead"} {
					if op, ok := opByName(strings.TrimSuffix(rest, suf)); ok {
						f.Ops = append(f.Ops, op)
						found = true
						break
					}
				}
			}
			if found {
				break
			}
		}
		if !found {
			return f, fmt.Errorf("--focus: %q is neither an opcode name (up to Shanghai) nor a known function name", tok)
		}
	}
	return f, nil
}

// Generate makes program number idx of the run with the given seed.
func Generate(seed int64, idx int, f Focus) *Program {
	r := rand.New(rand.NewSource(seed*1_000_003 + int64(idx)*7919 + 1))
	p := &Program{Seed: seed, Index: idx}
	target := r.Intn(len(forkNames))
	mk := func(level int) *gen {
		g := &gen{r: r, a: newAsm(), level: level, focus: f.Ops, bigMem: f.BigMem, precomp: f.Precomp, maxFork: target}
		g.buildPool()
		return g
	}
	p.Callee = mk(1).program(1 + r.Intn(8))
	if r.Intn(12) == 0 {
		p.Create = true
		p.Code = mk(2).program(1 + r.Intn(6))
	} else {
		p.Code = mk(0).program(3 + r.Intn(22))
	}
	n := []int{0, 0, 4, 32, 36, 68, 100}[r.Intn(7)]
	p.Calldata = make([]byte, n)
	r.Read(p.Calldata)
	switch r.Intn(6) {
	case 0:
		p.Value = 1
	case 1:
		p.Value = uint64(r.Intn(100000))
	}
	return p
}

var gasPoints = []uint64{0, 1, 2, 3, 20, 21, 100, 700, 2300, 2301, 5000, 9000, 20000, 21000, 25000, 32000, 53000, 100000}

// chooseGas picks the gas limit; used is the gas the program consumed on the
// reference implementation with a large limit (on its home fork).
func chooseGas(r *rand.Rand, used uint64, big uint64) uint64 {
	switch k := r.Intn(100); {
	case k < 40:
		return big
	case k < 55:
		return used // exactly enough
	case k < 70:
		if used > 0 {
			return used - 1 // one short
		}
		return 0
	case k < 85:
		if used > 0 {
			return uint64(r.Int63n(int64(used) + 1))
		}
		return 0
	case k < 95:
		return gasPoints[r.Intn(len(gasPoints))]
	default:
		return used + uint64(r.Intn(3000))
	}
}
