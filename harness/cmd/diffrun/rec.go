package main

import (
	"fmt"
	"math/big"

	"github.com/ethereum/go-ethereum/common"
	"github.com/holiman/uint256"

	avm "github.com/artela-network/artela-evm/vm"
	uvm "github.com/ethereum/go-ethereum/core/vm"
)

// Event is one tracer callback, in a form that is comparable with ==.
type Event struct {
	Kind     string // start end enter exit step fault txstart txend
	PC       uint64
	Op       byte
	Gas      uint64
	Cost     uint64
	Depth    int
	Err      string
	StackLen int
	Top0     uint256.Int // top of stack (zero if empty)
	Top1     uint256.Int
	MemLen   int
	RData    string
	From, To common.Address
	Create   bool
	Data     string // input (start/enter) or output (end/exit)
	Value    string
}

func (e Event) String() string {
	switch e.Kind {
	case "step", "fault":
		return fmt.Sprintf("%s pc=%d op=0x%02x(%s) gas=%d cost=%d depth=%d stack=%d top=[%s %s] mem=%d rdata=%x err=%q",
			e.Kind, e.PC, e.Op, uvm.OpCode(e.Op).String(), e.Gas, e.Cost, e.Depth, e.StackLen, e.Top0.Hex(), e.Top1.Hex(), e.MemLen, e.RData, e.Err)
	case "start", "enter":
		return fmt.Sprintf("%s typ=0x%02x from=%s to=%s create=%v input=%x gas=%d value=%s", e.Kind, e.Op, e.From.Hex(), e.To.Hex(), e.Create, e.Data, e.Gas, e.Value)
	case "end", "exit":
		return fmt.Sprintf("%s output=%x gasUsed=%d err=%q", e.Kind, e.Data, e.Gas, e.Err)
	}
	return fmt.Sprintf("%s gas=%d", e.Kind, e.Gas)
}

const maxEvents = 400000

// recorder is the fork-independent core shared by the two EVMLogger adapters.
type recorder struct {
	events      []Event
	overflow    bool
	outOfDomain string // non-empty: why this execution left the compared domain
}

func (r *recorder) add(e Event) {
	if len(r.events) >= maxEvents {
		r.overflow = true
		return
	}
	r.events = append(r.events, e)
}

func errStr(err error) string {
	if err == nil {
		return ""
	}
	return err.Error()
}

func bigStr(v *big.Int) string {
	if v == nil {
		return "<nil>"
	}
	return v.String()
}

// bytes that are outside the compared domain (Artela additions / renumbering)
func excludedOp(op byte) bool {
	switch {
	case op >= 0x5c && op <= 0x5e, op == 0xb3, op == 0xb4, op >= 0xe0 && op <= 0xe7, op == 0x49, op == 0x4a:
		return true
	}
	return false
}

func excludedAddr(v *uint256.Int) bool {
	b := v.Bytes20()
	for i := 0; i < 19; i++ {
		if b[i] != 0 {
			return false
		}
	}
	return b[19] >= 0x64 && b[19] <= 0x66
}

func (r *recorder) step(kind string, pc uint64, op byte, gas, cost uint64, stack []uint256.Int, memLen int, rData []byte, depth int, err error) {
	e := Event{Kind: kind, PC: pc, Op: op, Gas: gas, Cost: cost, Depth: depth, Err: errStr(err), StackLen: len(stack), MemLen: memLen, RData: string(rData)}
	n := len(stack)
	if n > 0 {
		e.Top0 = stack[n-1]
	}
	if n > 1 {
		e.Top1 = stack[n-2]
	}
	if excludedOp(op) {
		r.outOfDomain = fmt.Sprintf("opcode 0x%02x executed at pc %d", op, pc)
	}
	switch op {
	case 0x31, 0x3b, 0x3c, 0x3f, 0xff:
		if n > 0 && excludedAddr(&stack[n-1]) {
			r.outOfDomain = fmt.Sprintf("op 0x%02x on Artela precompile address at pc %d", op, pc)
		}
	case 0xf1, 0xf2, 0xf4, 0xfa:
		if n > 1 && excludedAddr(&stack[n-2]) {
			r.outOfDomain = fmt.Sprintf("call 0x%02x to Artela precompile address at pc %d", op, pc)
		}
	}
	r.add(e)
}

// ---- upstream adapter

type upRec struct{ recorder }

func (r *upRec) CaptureTxStart(gasLimit uint64) { r.add(Event{Kind: "txstart", Gas: gasLimit}) }
func (r *upRec) CaptureTxEnd(restGas uint64)    { r.add(Event{Kind: "txend", Gas: restGas}) }
func (r *upRec) CaptureStart(env *uvm.EVM, from common.Address, to common.Address, create bool, input []byte, gas uint64, value *big.Int) {
	r.add(Event{Kind: "start", From: from, To: to, Create: create, Data: string(input), Gas: gas, Value: bigStr(value)})
}
func (r *upRec) CaptureEnd(output []byte, gasUsed uint64, err error) {
	r.add(Event{Kind: "end", Data: string(output), Gas: gasUsed, Err: errStr(err)})
}
func (r *upRec) CaptureEnter(typ uvm.OpCode, from common.Address, to common.Address, input []byte, gas uint64, value *big.Int) {
	r.add(Event{Kind: "enter", Op: byte(typ), From: from, To: to, Data: string(input), Gas: gas, Value: bigStr(value)})
}
func (r *upRec) CaptureExit(output []byte, gasUsed uint64, err error) {
	r.add(Event{Kind: "exit", Data: string(output), Gas: gasUsed, Err: errStr(err)})
}
func (r *upRec) CaptureState(pc uint64, op uvm.OpCode, gas, cost uint64, scope *uvm.ScopeContext, rData []byte, depth int, err error) {
	r.step("step", pc, byte(op), gas, cost, scope.Stack.Data(), scope.Memory.Len(), rData, depth, err)
}
func (r *upRec) CaptureFault(pc uint64, op uvm.OpCode, gas, cost uint64, scope *uvm.ScopeContext, depth int, err error) {
	r.step("fault", pc, byte(op), gas, cost, scope.Stack.Data(), scope.Memory.Len(), nil, depth, err)
}

// ---- artela adapter

type arRec struct{ recorder }

func (r *arRec) CaptureTxStart(gasLimit uint64) { r.add(Event{Kind: "txstart", Gas: gasLimit}) }
func (r *arRec) CaptureTxEnd(restGas uint64)    { r.add(Event{Kind: "txend", Gas: restGas}) }
func (r *arRec) CaptureStart(env *avm.EVM, from common.Address, to common.Address, create bool, input []byte, gas uint64, value *big.Int) {
	r.add(Event{Kind: "start", From: from, To: to, Create: create, Data: string(input), Gas: gas, Value: bigStr(value)})
}
func (r *arRec) CaptureEnd(output []byte, gasUsed uint64, err error) {
	r.add(Event{Kind: "end", Data: string(output), Gas: gasUsed, Err: errStr(err)})
}
func (r *arRec) CaptureEnter(typ avm.OpCode, from common.Address, to common.Address, input []byte, gas uint64, value *big.Int) {
	r.add(Event{Kind: "enter", Op: byte(typ), From: from, To: to, Data: string(input), Gas: gas, Value: bigStr(value)})
}
func (r *arRec) CaptureExit(output []byte, gasUsed uint64, err error) {
	r.add(Event{Kind: "exit", Data: string(output), Gas: gasUsed, Err: errStr(err)})
}
func (r *arRec) CaptureState(pc uint64, op avm.OpCode, gas, cost uint64, scope *avm.ScopeContext, rData []byte, depth int, err error) {
	r.step("step", pc, byte(op), gas, cost, scope.Stack.Data(), scope.Memory.Len(), rData, depth, err)
}
func (r *arRec) CaptureFault(pc uint64, op avm.OpCode, gas, cost uint64, scope *avm.ScopeContext, depth int, err error) {
	r.step("fault", pc, byte(op), gas, cost, scope.Stack.Data(), scope.Memory.Len(), nil, depth, err)
}
