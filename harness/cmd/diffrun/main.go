// Command diffrun is the differential replay harness of E2: it runs the same
// generated EVM programs on go-ethereum v1.12.0's core/vm and on artela-evm's vm
// (same pre-state, calldata, gas, fork rules) and compares every observable.
//
//	diffrun --seed N --count K --fork <name|all> [--focus <opcodes|function>] [--out file.json] [--workers W]
//	diffrun --replay file.json [--index I] [--trace]
//
// Compared domain: opcodes defined up to Shanghai; bytes 0x5c-0x5e, 0xb3, 0xb4,
// 0xe0-0xe7 and precompile addresses 0x64-0x66 are never generated, and an
// execution that reaches them anyway is counted as out_of_domain, not compared.
package main

import (
	"encoding/hex"
	"encoding/json"
	"flag"
	"fmt"
	"math/rand"
	"os"
	"runtime"
	"sort"
	"strings"
	"sync"
	"time"

	uvm "github.com/ethereum/go-ethereum/core/vm"
)

type Disagreement struct {
	Seed     int64  `json:"seed"`
	Index    int    `json:"index"`
	Fork     string `json:"fork"`
	Code     string `json:"code"`
	Callee   string `json:"callee_code"`
	Calldata string `json:"calldata"`
	Gas      uint64 `json:"gas"`
	Value    uint64 `json:"value"`
	Create   bool   `json:"create"`
	Differs  []Diff `json:"differs"`
}

type Sample struct {
	Index    int    `json:"index"`
	Code     string `json:"code"`
	Callee   string `json:"callee_code"`
	Calldata string `json:"calldata"`
	Gas      uint64 `json:"gas"`
	Create   bool   `json:"create"`
}

type Output struct {
	Engine            string         `json:"engine"`
	Seed              int64          `json:"seed"`
	Programs          int            `json:"programs"`
	Forks             []string       `json:"forks"`
	Focus             string         `json:"focus,omitempty"`
	Runs              int            `json:"runs"`
	Compared          int            `json:"compared"`
	OutOfDomain       int            `json:"out_of_domain"`
	Disagreeing       int            `json:"disagreeing_runs"`
	Disagreements     []Disagreement `json:"disagreements"`
	Truncated         bool           `json:"disagreements_truncated,omitempty"`
	Samples           []Sample       `json:"samples"`
	ErrorClasses      map[string]int `json:"error_classes_upstream"`
	DistinctOpsRun    int            `json:"distinct_opcodes_executed"`
	OpsNeverRun       []string       `json:"domain_opcodes_never_executed"`
	StepsTotal        int            `json:"trace_events_total"`
	TraceOverflowRuns int            `json:"trace_overflow_runs"`
	WallS             float64        `json:"wall_s"`
}

const bigGas = 600_000
const maxStored = 40

type progResult struct {
	idx      int
	prog     *Program
	dis      []Disagreement
	runs     int
	ood      int
	errs     map[string]int
	ops      [256]int
	steps    int
	overflow int
}

func runProgram(seed int64, idx int, forks []Fork, focus Focus) *progResult {
	pr := &progResult{idx: idx, errs: map[string]int{}}
	p := Generate(seed, idx, focus)
	pr.prog = p
	ps, err := buildPreState(p)
	if err != nil {
		panic(err)
	}
	// choose the gas limit around the amount the reference needs on one fork
	home := forks[idx%len(forks)]
	p.Gas = bigGas
	pre := runUpstream(p, home, ps, false)
	used := bigGas - pre.Gas
	r := rand.New(rand.NewSource(seed*31 + int64(idx)*104729 + 17))
	p.Gas = chooseGas(r, used, bigGas)
	for _, f := range forks {
		u := runUpstream(p, f, ps, true)
		a := runArtela(p, f, ps, true)
		pr.runs++
		pr.steps += len(u.Events)
		if u.Overflow || a.Overflow {
			pr.overflow++
		}
		if u.OutOfDomain != "" || a.OutOfDomain != "" {
			pr.ood++
			continue
		}
		cls := u.Err
		if strings.HasPrefix(cls, "invalid opcode") {
			cls = "invalid opcode"
		} else if strings.HasPrefix(cls, "stack underflow") {
			cls = "stack underflow"
		} else if strings.HasPrefix(cls, "stack limit reached") {
			cls = "stack limit reached"
		} else if cls == "" {
			cls = "<nil>"
		}
		pr.errs[cls]++
		for _, e := range u.Events {
			if e.Kind == "step" {
				pr.ops[e.Op]++
			}
		}
		if d := compare(&u, &a); len(d) > 0 {
			pr.dis = append(pr.dis, Disagreement{Seed: seed, Index: idx, Fork: f.Name,
				Code: hex.EncodeToString(p.Code), Callee: hex.EncodeToString(p.Callee), Calldata: hex.EncodeToString(p.Calldata),
				Gas: p.Gas, Value: p.Value, Create: p.Create, Differs: d})
		}
	}
	return pr
}

func selectForks(s string) ([]Fork, error) {
	var names []string
	if strings.EqualFold(s, "all") || s == "" {
		names = forkNames
	} else {
		names = strings.Split(s, ",")
	}
	var out []Fork
	for _, n := range names {
		f, err := forkByName(strings.TrimSpace(n))
		if err != nil {
			return nil, err
		}
		out = append(out, f)
	}
	return out, nil
}

func main() {
	seed := flag.Int64("seed", 1, "random seed")
	count := flag.Int("count", 200, "number of programs")
	fork := flag.String("fork", "all", "fork name, comma list, or all ("+strings.Join(forkNames, ",")+")")
	focusS := flag.String("focus", "", "opcode names (comma separated) or a vm function name to bias generation")
	out := flag.String("out", "", "write JSON here (default stdout)")
	workers := flag.Int("workers", runtime.NumCPU(), "parallel workers (result is independent of this)")
	replay := flag.String("replay", "", "re-run one recorded disagreement from this JSON file")
	index := flag.Int("index", 0, "which disagreement of --replay")
	trace := flag.Bool("trace", false, "with --replay: print both full traces")
	flag.Parse()

	initAspect()

	if *replay != "" {
		os.Exit(doReplay(*replay, *index, *trace))
	}
	t0 := time.Now()
	forks, err := selectForks(*fork)
	if err != nil {
		fmt.Fprintln(os.Stderr, "diffrun:", err)
		os.Exit(2)
	}
	focus, err := parseFocus(*focusS)
	if err != nil {
		fmt.Fprintln(os.Stderr, "diffrun:", err)
		os.Exit(2)
	}
	results := make([]*progResult, *count)
	var wg sync.WaitGroup
	next := make(chan int)
	w := *workers
	if w < 1 {
		w = 1
	}
	for i := 0; i < w; i++ {
		wg.Add(1)
		go func() {
			defer wg.Done()
			for idx := range next {
				results[idx] = runProgram(*seed, idx, forks, focus)
			}
		}()
	}
	for i := 0; i < *count; i++ {
		next <- i
	}
	close(next)
	wg.Wait()

	o := Output{Engine: "diffrun", Seed: *seed, Programs: *count, Focus: *focusS, ErrorClasses: map[string]int{},
		Disagreements: []Disagreement{}, Samples: []Sample{}}
	for _, f := range forks {
		o.Forks = append(o.Forks, f.Name)
	}
	var ops [256]int
	for _, pr := range results {
		o.Runs += pr.runs
		o.OutOfDomain += pr.ood
		o.StepsTotal += pr.steps
		o.TraceOverflowRuns += pr.overflow
		for k, v := range pr.errs {
			o.ErrorClasses[k] += v
		}
		for i, v := range pr.ops {
			ops[i] += v
		}
		o.Disagreeing += len(pr.dis)
		for _, d := range pr.dis {
			if len(o.Disagreements) < maxStored {
				o.Disagreements = append(o.Disagreements, d)
			} else {
				o.Truncated = true
			}
		}
		if len(o.Samples) < 3 {
			p := pr.prog
			o.Samples = append(o.Samples, Sample{Index: p.Index, Code: hex.EncodeToString(p.Code), Callee: hex.EncodeToString(p.Callee),
				Calldata: hex.EncodeToString(p.Calldata), Gas: p.Gas, Create: p.Create})
		}
	}
	o.Compared = o.Runs - o.OutOfDomain
	for _, op := range domainOps {
		if ops[op] > 0 {
			o.DistinctOpsRun++
		} else {
			o.OpsNeverRun = append(o.OpsNeverRun, uvm.OpCode(op).String())
		}
	}
	sort.Strings(o.OpsNeverRun)
	o.WallS = float64(time.Since(t0).Milliseconds()) / 1e3
	b, _ := json.MarshalIndent(o, "", " ")
	b = append(b, '\n')
	if *out == "" {
		os.Stdout.Write(b)
	} else if err := os.WriteFile(*out, b, 0o644); err != nil {
		fmt.Fprintln(os.Stderr, "diffrun:", err)
		os.Exit(2)
	}
	fmt.Fprintf(os.Stderr, "diffrun: programs=%d forks=%d runs=%d compared=%d out_of_domain=%d disagreeing_runs=%d distinct_ops=%d/%d events=%d wall=%.1fs\n",
		o.Programs, len(forks), o.Runs, o.Compared, o.OutOfDomain, o.Disagreeing, o.DistinctOpsRun, len(domainOps), o.StepsTotal, o.WallS)
	for i, d := range o.Disagreements {
		if i >= 5 {
			fmt.Fprintf(os.Stderr, "  ... %d more\n", o.Disagreeing-5)
			break
		}
		fmt.Fprintf(os.Stderr, "  DISAGREE program=%d fork=%s gas=%d: %s: upstream=%s artela=%s\n", d.Index, d.Fork, d.Gas, d.Differs[0].What, clip(d.Differs[0].Upstream), clip(d.Differs[0].Artela))
	}
	if o.Disagreeing > 0 {
		os.Exit(1)
	}
}

func clip(s string) string {
	if len(s) > 200 {
		return s[:200] + "..."
	}
	return s
}

func doReplay(path string, idx int, full bool) int {
	b, err := os.ReadFile(path)
	if err != nil {
		fmt.Fprintln(os.Stderr, "diffrun:", err)
		return 2
	}
	var o Output
	if err := json.Unmarshal(b, &o); err != nil {
		fmt.Fprintln(os.Stderr, "diffrun:", err)
		return 2
	}
	if idx < 0 || idx >= len(o.Disagreements) {
		fmt.Fprintf(os.Stderr, "diffrun: %s holds %d disagreements; --index %d out of range\n", path, len(o.Disagreements), idx)
		return 2
	}
	d := o.Disagreements[idx]
	p := &Program{Seed: d.Seed, Index: d.Index, Gas: d.Gas, Value: d.Value, Create: d.Create}
	p.Code, _ = hex.DecodeString(d.Code)
	p.Callee, _ = hex.DecodeString(d.Callee)
	p.Calldata, _ = hex.DecodeString(d.Calldata)
	f, err := forkByName(d.Fork)
	if err != nil {
		fmt.Fprintln(os.Stderr, "diffrun:", err)
		return 2
	}
	ps, err := buildPreState(p)
	if err != nil {
		fmt.Fprintln(os.Stderr, "diffrun:", err)
		return 2
	}
	u := runUpstream(p, f, ps, true)
	a := runArtela(p, f, ps, true)
	fmt.Printf("replay program=%d seed=%d fork=%s gas=%d value=%d create=%v\ncode=%s\ncallee=%s\ncalldata=%s\n", d.Index, d.Seed, d.Fork, d.Gas, d.Value, d.Create, d.Code, d.Callee, d.Calldata)
	pr := func(name string, r *Result) {
		fmt.Printf("%-8s err=%q ret=%x leftover_gas=%d refund=%d logs=%d root=%s events=%d out_of_domain=%q\n", name, r.Err, r.Ret, r.Gas, r.Refund, len(r.Logs), r.Root.Hex(), len(r.Events), r.OutOfDomain)
		if r.Panic != "" {
			fmt.Printf("%s panic: %s\n", name, r.Panic)
		}
	}
	pr("upstream", &u)
	pr("artela", &a)
	diffs := compare(&u, &a)
	for _, x := range diffs {
		fmt.Printf("DIFF %s\n  upstream: %s\n  artela:   %s\n", x.What, x.Upstream, x.Artela)
	}
	// context around the first diverging event
	n := len(u.Events)
	if len(a.Events) < n {
		n = len(a.Events)
	}
	first := -1
	for i := 0; i < n; i++ {
		if u.Events[i] != a.Events[i] {
			first = i
			break
		}
	}
	if first < 0 && len(u.Events) != len(a.Events) {
		first = n
	}
	if first >= 0 {
		lo := first - 6
		if lo < 0 {
			lo = 0
		}
		fmt.Printf("trace context (events %d..%d):\n", lo, first+2)
		for i := lo; i <= first+2; i++ {
			if i < len(u.Events) {
				fmt.Printf("  U[%d] %s\n", i, u.Events[i])
			}
			if i >= first && i < len(a.Events) {
				fmt.Printf("  A[%d] %s\n", i, a.Events[i])
			}
		}
	}
	if full {
		for i, e := range u.Events {
			fmt.Printf("U[%d] %s\n", i, e)
		}
		for i, e := range a.Events {
			fmt.Printf("A[%d] %s\n", i, e)
		}
	}
	if len(diffs) > 0 {
		return 1
	}
	fmt.Println("no disagreement on replay")
	return 0
}
